#!/bin/sh
# Builds the overlay venv used by every check (offline; idempotent).
set -e
cd "$(dirname "$0")"
V=.venv
if [ ! -x $V/bin/python ] || ! $V/bin/python -c "import z3, cvc5, crosshair, numpy, AEIC" >/dev/null 2>&1; then
  rm -rf $V
  /venv/bin/python -m venv $V
  SP=$($V/bin/python -c "import sysconfig; print(sysconfig.get_paths()['purelib'])")
  printf "import site; site.addsitedir('/venv/lib/python3.13/site-packages')\n" > "$SP/zz_venv_overlay.pth"
  PIP_NO_INDEX=1 $V/bin/python -m pip install -q --no-index --find-links /opt/veriftools/wheels z3-solver cvc5 crosshair-tool >/dev/null
  $V/bin/python -c "import z3, cvc5, crosshair, numpy, AEIC"
fi
echo "setup ok: $($V/bin/python -c 'import z3; print(z3.get_version_string())')"
