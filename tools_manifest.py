#!/usr/bin/env python3
"""Regenerates MANIFEST.json from the table below (keeps it valid at all times)."""
import json
from pathlib import Path

HERE = Path(__file__).parent
PROPS = [json.loads(l) for l in (HERE / 'properties.jsonl').read_text().splitlines() if l.strip()]

# id -> (level category, level text, level note, technique, design ref)
CHECKS = {
    'C01': ('other',
            'Bounded symbolic verification: the real compute_emissions (and trajectory/LTO/APU/GSE code below it) is executed on symbolic trajectories, LTO/APU/fuel data and a symbolic configuration; per explored path z3 shows over exact reals that every balance obligation holds for all inputs (unsat), else returns a counterexample that is replayed on the real code with real numpy. Bounds: 2 (quick) / 3 (thorough) trajectory points; option product and environment dimensions as listed in the evidence.',
            'floats as reals (1e-9 tolerance); transcendental EI kernels are non-negative nondeterministic stubs (their behaviour is C12); proxy engine and numpy shim trusted as validated by the concolic cross-check in each run',
            'proxy symbolic execution of real Python + z3 QF_NRA per-path obligations', 'DESIGN.md#c01'),
    'C02': ('other',
            'Bounded symbolic verification: the real LegacyBuilder.fly (context, starting mass, climb/cruise/descent), Container (growable buffers, make_point, append) and Trajectory (set_phase, append, interpolate_time) run on a symbolic mission against a nondeterministic performance model (any answers within the documented contract, or an out-of-envelope refusal at any call); per explored path z3 decides for all inputs: mass minus fuel constant, masses/time/distance monotone, first point carries starting mass and fuel, altitude schedule (start/end levels, monotone per phase, constant cruise, never above cruise level/ceiling), phase hand-over, every position is the ground track\'s answer for exactly the recorded distance, finiteness of the phase arithmetic, resampling at own time points and at a symbolic intermediate time; rejected missions raise documented errors carrying the original reason. Buffer capacities are set small so growth boundaries fall inside the bound both aligned and mis-aligned with phase ends. Counterexamples replay with real numpy/pyproj and then through the public API on the shipped model.',
            '2-3 (thorough up to 4) points per phase; quick tier uses a recording stand-in for GroundTrack (the real class is C15, and runs here in the thorough tier); products of two symbols abstracted by sign axioms and refined on sat; no weather, no mass iteration',
            'proxy symbolic execution of the real builder/container code + z3 (LRA abstraction refined in QF_NRA)', 'DESIGN.md#c02'),
    'C03': ('other',
            'Round trip through the real store write/read code (_create_dimensions, _create_nc_file, _write_data, _write_to_nc_var, _read_from_nc_var, _load_trajectory, create_associated, convert_in) over a netCDF4 model for a harness-registered field set covering all six dimension combinations and float64/int32/int64/str types: species membership is a solver-chosen bit per species and per species-indexed field over a universe of 3 (thorough 4) species including the first, a middle and the last of the enumeration (so gaps and fields with different subsets are covered exhaustively), together with unset optional fields, thrust-mode values given in either order and a second trajectory with fewer species; in one file, base plus associated file, and an associated file produced by mapping over the store; after reopening every field reads back equal by an independent comparator (same species keys, none lost, none invented, same values, None stays None). Counterexamples replay on the real netCDF4.',
            'the HDF5 encoding itself (VL arrays, string fill values, dtype promotion) is outside: netCDF4 is modelled; values are concrete tags; exhaustive over the stated universe, not beyond',
            'proxy execution with solver-chosen membership/presence/layout over a netCDF4 model (exhaustive enumeration of the stated space)', 'DESIGN.md#c03'),
    'C06': ('other',
            'Bounded symbolic verification plus a floating-point kernel: one evaluate() of the real LegacyPerformanceModel (evaluate, _evaluate_checked, evaluate_impl, PerformanceTable.interpolate, Interpolator.__call__) with every table value, the altitude and the mass symbolic over a reference model of scipy interpn; z3 decides that the result is the piecewise (bi)linear interpolation of exactly the selected phase table at (altitude*METERS_TO_FL, mass), depends only on altitude, mass and phase, that states outside the phase envelope are refused and none inside is, and that min/max mean the extreme table masses; the interpolant is exact at nodes and bounded by corner values (NRA). QF_FP (z3, cvc5 cross-check) over all integer flight levels 0..600 decides that a tabulated level expressed in metres with the library\'s own factors stays within the edge tolerance the implementation applies. build_performance_table (compiled from the current source) reproduces every symbolic PTF row exactly once.',
            'grid coordinates concrete; pandas assembly code (dense-grid refusal at load, subset, Interpolator.__init__) and PTF text parsing are not decided by this technique (declared in DESIGN.md); interpn replaced by a reference model validated against scipy each run',
            'proxy symbolic execution + z3 (LRA/NRA) and QF_FP bit-precise query', 'DESIGN.md#c06'),
    'C07': ('model_checking',
            'Kernel decided by z3 for all sizes: the real _load_trajectory runs with solver integers for the index, the number of trajectories at open time, the number added in the session and the per-file sizes of merged stores, on file records whose variables report the position they are read at; the position read must be the position add wrote (negative positions normalised against the current file length), and an index is loaded iff it is below the length. Histories: every sequence of L operations (add with varying reported sizes, read any index incl. one beyond the end, len, iterate, sync, close+reopen for append/read) with ample and tiny caches, file-backed and in-memory, runs on the real store over a netCDF4 model and is compared with a Python list (exhaustive bounded enumeration, operation codes being solver variables). Counterexamples and sample histories are replayed on the real netCDF4.',
            'netCDF4 replaced by vf/models/fakenc.py, trusted because the repository storage tests pass with it substituted (re-run in every check run) and because counterexamples replay on the real library; L = 4 (thorough 5) operations; cache_size_mb=0 outside',
            'proxy symbolic execution with solver integers (z3 LIA) + exhaustive bounded history exploration', 'DESIGN.md#c07'),
    'C08': ('model_checking',
            'The real index code (staleness flag set by add, _reindex, sorted (identifier, index) table searched by bisection, merged index with per-store offsets) runs with solver-integer flight identifiers stored in a netCDF4 model: sorted() and bisect fork on symbolic comparisons, so every insertion order of distinct identifiers is a path; on every path each added identifier returns exactly the trajectory added with it and an identifier never added returns nothing -- immediately after adds, after sync, after further adds, across append sessions, after reopening and in a merged store of two parts. Mixing identified and unidentified trajectories is refused in create and append sessions and the store stays consistent. Counterexamples replay on the real netCDF4 with the model\'s identifier values.',
            'netCDF4 model validated by the repository storage tests; 3 (thorough 4) identifiers per history; concrete tagged payloads',
            'proxy symbolic execution with solver-integer identifiers (z3 LIA) over a netCDF4 model', 'DESIGN.md#c08'),
    'C09': ('model_checking',
            'Merged stores on the real merge/_check_merge_arguments/_open_merged_store/_create_merged_store_index/_load_trajectory code over a netCDF4 model with real directory operations: for every explored layout (1..3 parts, thorough 4; 1-2 trajectories per part; file names whose given order differs from alphabetical order, unpadded numbered patterns; solver-integer identifiers in every relative order, or none) length = sum, the i-th trajectory = i-th of the concatenation at every seam, identifier lookup across parts, metadata lists the parts; invalid inputs (different field sets, mixed identification, shared file names, missing input, wrong extension, existing output) are refused with inputs left readable and the corrected retry succeeding. Arbitrary part sizes are covered by the C07 kernel (solver integers).',
            'netCDF4 model validated by the repository storage tests; associated stores merged separately are not covered; counterexamples replay on the real netCDF4',
            'proxy symbolic execution with solver-chosen layouts and solver-integer identifiers over a netCDF4 model', 'DESIGN.md#c09'),
    'C10': ('fault_enumeration',
            'Fault enumeration driven by solver variables: every kind of rejected addition (required value missing, different field sets, identifier missing/unexpected) at every position of an add sequence, in create, append and in-memory sessions of identified and unidentified stores, must leave length, every index, the next index returned and the reopened file equal to a list model that ignored the rejection; a failure injected at each file-system step of merge (mkdir, each rename, index file creation, metadata.json write) must leave every trajectory readable from its original file or the merged directory and never a metadata.json announcing missing parts; refused merges keep their inputs and can be retried after correcting the cause. Runs on the real store code over a netCDF4 model; counterexamples replay on the real library.',
            'faults inside the netCDF/HDF5 library while a single file is written are outside; 2 (thorough 3) additions around the rejected one; 3 merge inputs',
            'proxy execution with solver-chosen fault points over a netCDF4 model (exhaustive over the listed fault alphabet)', 'DESIGN.md#c10'),
    'C11': ('other',
            'Bounded symbolic verification over configurations: the 12 documented options are solver variables read through concretising forks, the real compute_emissions runs for every feasible option combination on symbolic data; every path must return (then switched-off species are proved absent/zero in trajectory and LTO parts) or raise a refusal naming the offending option value; any other exception is a counterexample configuration, replayed through the real Config.load + compute_emissions.',
            'same engine and stubs as C01; classification of an exception as a named refusal is by message text',
            'proxy symbolic execution with symbolic configuration + z3; exceptions as path outcomes', 'DESIGN.md#c11'),
    'C12': ('other',
            'Bounded symbolic verification of the EI/atmosphere building blocks against independent transcriptions of the cited equations over their whole input range, with exp/log/log10/10^x/x^c as axiomatised uninterpreted functions: ISA temperature and pressure in both layers (refusal above 25 km, positivity, algebraic inverse altitude(pressure(h)) = h), Fuel Flow Method 2 sea-level fuel flow (eq. 40) and Mach number, thrust category (exactly one, midpoint thresholds, monotone in fuel flow for every positive calibration set including non-monotone and equal flows), SOx stoichiometry (sulfur atoms conserved), FOA3 (piecewise-linear delta, linear in HC) and fuel-flow volatile PM, SCOPE11 (invalid smoke numbers skipped, cap at 40, TF/MTF/other), and for BFFM2 NOx and HC/CO: non-negativity, speciation fractions summing to one and coupling to the thrust category.',
            'libm accuracy and anything needing the numeric value of a transcendental function are outside; MEEM and the full log-log fits of BFFM2/HC-CO (structure vs. reference, linear scaling) are not decided (stated in DESIGN.md); exact reals with 1e-9 relative tolerance',
            'proxy symbolic execution + z3 with Ackermannised uninterpreted functions and instantiated axioms', 'DESIGN.md#c12'),
    'C14': ('translation_validation',
            'Translation validation of the generated SQL: the real Filter.to_sql and helpers, QueryBase._common_conditions and Query/CountQuery/FrequentFlightQuery.to_sql run with solver variables as parameter values for every query/filter shape (condition groups enumerated exhaustively group by group and all together); the produced WHERE text is parsed by a small grammar and interpreted over one symbolic joined row (airport, country, continent and location as uninterpreted functions of the airport id); z3 decides for all rows and parameter values that it selects exactly what a predicate written from the documentation selects (ranges, type lists, airport/country/continent/bounding-box conditions on origin, destination or either end, start date inclusive from 00:00 UTC, end date inclusive to 24:00, every-n-th day, sampling applied exactly once), that placeholders and parameters align one-to-one in order, that ORDER BY/LIMIT/OFFSET/COUNT/GROUP BY structure is as documented, that an empty filter adds no condition, that the spatial compatibility rule holds for all 4096 presence patterns, and that building the SQL twice gives the same statement and an independent parameter list. Counterexample rows are replayed through real sqlite.',
            'SQL semantics are those of the mini interpreter for the generated fragment (anything else is reported as unsupported, exit 2); sqlite executor, r-tree float32 rounding, ORDER BY stability and sampling statistics are outside; frequent-route counts are checked structurally (and od_pair symmetry in C13\'s harness)',
            'symbolic parameters through the real generators + mini-SQL interpretation + z3 equivalence (translation validation)', 'DESIGN.md#c14'),
    'C15': ('other',
            'Bounded symbolic verification: the real GroundTrack (constructor, location, step, overstep) and Mission.gc_distance run on symbolic waypoints/airports and symbolic distances with pyproj replaced by a recording geodesic oracle; z3 decides for all inputs that total length is the sum of the per-segment oracle distances, that the returned position is the oracle forward result from the start waypoint of the segment containing the requested distance by exactly the offset (overstep: continuing the last segment from its own start), that step(a,b) and location(a+b) coincide, that refusals occur only for documented reasons, that azimuths are in [0,360), and that every oracle call uses (lon, lat) order. Counterexamples are replayed with real pyproj against an independent geodesic computation.',
            'pyproj is a trusted oracle (its WGS-84 numerics, antimeridian and polar behaviour are not analysed); 2..3 (thorough 4) waypoints; one operation per path',
            'proxy symbolic execution over a recording oracle + z3 dataflow obligations', 'DESIGN.md#c15'),
    'C16': ('other',
            'Bounded symbolic verification of one ground-speed evaluation and of the data selection behind it: the real get_ground_speed runs on symbolic airspeed/heading/altitude/position/wind with sin and cos as values on the unit circle, and z3 (QF_NRA) decides for all inputs: no wind gives TAS, a tailwind along (sin h, cos h) adds, a headwind subtracts, result = vector-sum length within [|TAS-W|, TAS+W], pressure level = ISA pressure of the altitude in hPa, missing wind refused. The real _require_data/_require_main_ds run as an inductive step from any cache state satisfying the cache invariant with symbolic query times: the data used afterwards belong to the query date and hour and the invariant is restored. Counterexamples replay through real xarray on synthetic files.',
            'sin/cos uninterpreted on the unit circle; interpolation (xarray) and the ISA formula (C12) are declared oracles; one query per step',
            'proxy symbolic execution + z3 QF_NRA; inductive step over the data cache with symbolic times', 'DESIGN.md#c16'),
    'C17': ('model_checking',
            'Inductive step decided by z3: from a clean builder the real Builder.fly/_iterate_mass/__getattr__/__setattr__ run symbolically with a stub context whose constructor, starting-mass calculation and each mass iteration may raise any documented rejection (symbolic failure point) or succeed with symbolic residuals; obligations per path: builder instance state is exactly the pre-state (so every flight of any history starts from the same state), the exception leaving fly is the injected one, a returned trajectory is the last flown with |residual| < tolerance and carries that iteration\'s masses, otherwise non-convergence is reported. The same statement is decided on the real LegacyBuilder: flight 2 on a used builder (after a successful or refused flight 1 with different symbolic mission/model) is term-for-term the flight of a fresh builder. Concrete flight sequences on the real LegacyBuilder are compared bitwise with fresh builders as validation.',
            'context class and phase loop are stubs (their documented rejections are the failure alphabet); state outside the builder instance is not modelled; bit-identity is validated concretely, not decided by the solver',
            'proxy symbolic execution (inductive step with symbolic fault points) + z3', 'DESIGN.md#c17'),
    'C18': ('model_checking',
            'Three-state machine, inductive step decided by z3: from each singleton state every operation (load with symbolic failure at field validation / path normalisation / each file lookup, reset, get, proxy read, proxy write) runs the real bodies of the after-validators, Config.get/reset and ConfigProxy inside a model of the pydantic pipeline; per path the outcome and post-state must be those of the reference machine (in particular: any failing load ends unconfigured). Overlay precedence: the real Config.load body merges symbolic-leaf trees of every 2-level shape and must equal an independent highest-priority-layer-wins formulation. Concrete sequences on the real pydantic class validate the pipeline model and exercise immutability at every nesting level.',
            'pydantic-core is modelled (field validation, then after-validators in definition order); immutability is enforced inside pydantic-core and only exercised concretely; trees of depth 2 with 2 keys per level',
            'proxy symbolic execution with symbolic fault points + z3; shape enumeration with symbolic leaves', 'DESIGN.md#c18'),
    'C19': ('other',
            'Bounded symbolic verification per kernel with the library\'s own Bada3AircraftParameters carrying symbolic coefficients: every implemented BADA-3 equation (jet/turboprop/piston fuel flow and max climb thrust, temperature correction, cruise and descent thrusts, lift/drag/total-energy thrust, density) equals an independent transcription (z3 QF_NRA); calculate_thrust selects total-energy thrust capped by max climb/cruise thrust and substitutes high/low descent thrust when negative; calculate_specific_ground_range applies the cruise correction only in cruise with the zero-flow guard; update_mass_vector(_backward) anchors the prescribed end, each step decrease equals the trapezoid of fuel per distance for scalar and per-segment lengths and mass never increases; the four iterate_* drivers preserve this and the fuel-dependent ones never exceed MTOW. Any exception of the model code is a violation (parameter access).',
            'compositional (kernels connected through free values), exact reals, plausible-parameter assumptions listed in the evidence; scipy cumulative_trapezoid replaced by a reference model validated against scipy on each run; profiles of 3 (thorough 4) points, 3 (4) iterations',
            'proxy symbolic execution per kernel + z3 QF_NRA', 'DESIGN.md#c19'),
    'C20': ('model_checking',
            'Bounded model checking: per-thread instruction lists are generated on every run from the AST of TrajectoryStore.__init__/close (statements touching the owner record are encoded exactly; everything else is an abstract step that may raise), two threads are interleaved at source-line granularity in a z3 transition system unrolled to the total instruction count, and "both threads admitted" must be unsat for the race and for call sequences (construct/close/construct, failed constructor calls). Satisfying schedules are enforced on the real class with real threads by a sys.settrace line scheduler; reachability twins are replayed the same way on every run to validate the encoding.',
            '2 threads; A up to 2 (thorough 3) constructor calls, B 1 (thorough 2); line-level atomicity as the property states (bytecode-level pre-emption inside a line is outside); AST shapes outside the supported set give exit 2',
            'AST-generated transition system + z3 BMC over schedules; settrace scheduler replay', 'DESIGN.md#c20'),
}

NOT_YET = 'check not built yet in this round (planned: see DESIGN.md section 4)'


def main():
    checks = []
    for pid, (cat, text, note, tech, ref) in sorted(CHECKS.items()):
        checks.append(dict(
            property_id=pid,
            quick_cmd=f'./check {pid} --tier quick',
            thorough_cmd=f'./check {pid} --tier thorough',
            evidence_file=f'/verif/evidence/{pid}.json',
            replay_cmd_template=f'./check {pid} --replay {{path}}',
            engine=('astenc' if pid in ('C20',) else 'symex'),
            level_claimed=dict(category=cat, text=text, design_ref=ref),
            level_note=note,
            technique=tech,
        ))
    na = [dict(property_id=p['id'], reason=NA.get(p['id'], NOT_YET)) for p in PROPS if p['id'] not in CHECKS]
    man = dict(
        version=1,
        setup_cmd='./setup.sh',
        hooks=dict(guard='AEIC_VERIF', enable='no source hooks are needed: checks patch module globals of the imported AEIC package at run time (AEIC_VERIF=1 is exported by ./check for completeness)',
                   baseline_off_cmd='cd /repo && /venv/bin/python -m pytest -ra -q -p no:cacheprovider --timeout=900 --continue-on-collection-errors',
                   source_commits=[], add_only=True),
        engines=[
            dict(name='symex', path='vf/symex', serves_properties=sorted(CHECKS), kind_free_text='proxy-based symbolic execution of the real Python functions over z3 reals/ints (DFS path exploration with decision replay, numpy reached through object arrays), obligations discharged by z3, counterexamples replayed on the real code'),
            dict(name='astenc', path='vf/harness/c20.py', serves_properties=['C20'], kind_free_text='direct SMT encodings generated from the AST of the real source (thread interleavings as a bounded transition system)'),
        ],
        checks=checks,
        notes='All checks rebuild their encoding from the imported /repo/src on every run. exit 0 = held within bounds, 1 = replay-confirmed violation, 2 = inconclusive/harness error (never printed as VIOLATION).',
        not_applicable=na,
    )
    (HERE / 'MANIFEST.json').write_text(json.dumps(man, indent=1) + '\n')


NA = {}

if __name__ == '__main__':
    main()
