#!/bin/sh
# validates MANIFEST.json and every evidence file against the schemas (tooling venv has jsonschema)
python3-vt - <<'PY'
import json, jsonschema, glob
jsonschema.validate(json.load(open('/verif/MANIFEST.json')), json.load(open('/root/.vp/MANIFEST.schema.json')))
s = json.load(open('/root/.vp/EVIDENCE.schema.json'))
for f in sorted(glob.glob('/verif/evidence/*.json')):
    jsonschema.validate(json.load(open(f)), s)
    print('ok', f)
print('manifest ok')
PY
