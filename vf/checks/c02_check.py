"""C02 check driver (also produces the LegacyBuilder part of C17's evidence through vf.harness.c02)."""
from __future__ import annotations

import itertools
import random

from vf import common
from vf.harness import c02


def make_jobs(tier):
    jobs = []
    J = lambda **k: jobs.append(dict(dict(may_fail=False, resample=False, user_mass=False, track='stub', narrow=False), **k))  # noqa
    if tier == 'quick':
        dl = 400
        for s_ in [(2, 2, 2), (3, 2, 2), (2, 3, 2), (2, 2, 3)]:
            for c in [(3, 2), (2, 2), (4, 4)]:
                J(kind='bookkeeping', npts=s_, caps=c, deadline_s=dl)
        for c in [(3, 2), (2, 2)]:
            J(kind='refusals', npts=(2, 2, 2), caps=c, deadline_s=dl, may_fail=True, narrow=True)
            J(kind='resampling', npts=(2, 2, 2), caps=c, deadline_s=dl, resample=True, narrow=True)
        J(kind='user starting mass', npts=(2, 2, 2), caps=(3, 2), deadline_s=dl, user_mass=True, narrow=True)
        J(kind='real ground track over the geodesic oracle', npts=(2, 2, 2), caps=(3, 2), deadline_s=dl, track='real', narrow=True)
    else:
        dl = 3000
        for s_ in [s for s in itertools.product((2, 3, 4), repeat=3) if sum(s) <= 9]:
            for c in [(2, 2), (3, 2), (4, 4), (2, 1), (50, 50)]:
                J(kind='bookkeeping', npts=s_, caps=c, deadline_s=dl)
        for s_ in [(2, 2, 2), (3, 2, 3)]:
            for c in [(3, 2), (2, 2), (2, 1)]:
                J(kind='refusals', npts=s_, caps=c, deadline_s=dl, may_fail=True, narrow=(s_ != (2, 2, 2)))
                J(kind='resampling', npts=s_, caps=c, deadline_s=dl, resample=True, narrow=(s_ != (2, 2, 2)))
        J(kind='user starting mass', npts=(2, 2, 2), caps=(3, 2), deadline_s=dl, user_mass=True)
        J(kind='real ground track over the geodesic oracle', npts=(2, 2, 2), caps=(3, 2), deadline_s=dl, track='real', narrow=True)
    return jobs


def main():
    tier = common.tier()
    rep = common.Report('C02', 'other', 'proxy symbolic execution of the real LegacyBuilder.fly/Container/Trajectory/GroundTrack with a nondeterministic performance model + z3 (sign-abstracted products, refined in QF_NRA on sat)')
    m = c02.mods()
    LG, BB, CT, TR, GT, FS = m['LG'], m['BB'], m['CT'], m['TR'], m['GT'], m['FS']
    C, T, G = CT.Container, TR.Trajectory, GT.GroundTrack
    rep.functions = common.fn_fingerprint(BB.Builder.fly, BB.Builder._fly_iteration, BB.Builder._start_point, BB.Builder.__getattr__, BB.Builder.__setattr__,
                                          LG.LegacyContext.__init__, LG.LegacyBuilder.calc_starting_mass, LG.LegacyBuilder.fly_climb, LG.LegacyBuilder.fly_cruise,
                                          LG.LegacyBuilder.fly_descent, LG.LegacyBuilder._fly_level_change, C.make_point, C.append, C._append_point, C._append_from_dict,
                                          C._expand_capacity, C.__getattr__, C.__setattr__, C.fix, T.set_phase, T.append, T.interpolate_time,
                                          FS.FieldMetadata.convert_in, FS.FieldMetadata.empty, G.__init__, G.step, G.location, G._overstep, G.lookup_waypoint)
    jobs = make_jobs(tier)
    random.Random(common.seed()).shuffle(jobs)
    rep.bounds = dict(points_per_phase=sorted({tuple(j['npts']) for j in jobs}), container_capacity_start_and_growth=sorted({tuple(j['caps']) for j in jobs}),
                      mass_iteration='off (the iteration loop is C17\'s subject)', resampling='at all own time points and at one symbolic intermediate time')
    rep.assumptions = ['performance model = nondeterministic stub: TAS in [1,400], fuel flow in [0,50], rate of climb > 0 in climb / < 0 in descent / 0 in cruise with |rocd| < TAS, or an out-of-envelope refusal at any call',
                       'Container.STARTING_CAPACITY / CAPACITY_EXPANSION are set to small values by the harness so that buffer growth falls inside the bound, aligned and mis-aligned with phase ends',
                       'geodesic library = recording oracle (C15)', 'exact real arithmetic; products of two symbols are abstracted by sign axioms and refined with their defining equations when a query is satisfiable',
                       'no weather (ground speed with wind is C16)']
    rep.stubs = ['FieldMetadata._cast -> identity on symbols', 'GEOD -> recording oracle', 'performance model -> nondeterministic stub', 'mission -> symbolic airport positions/elevations and load factor']
    rep.outside = ['numbers of the shipped performance table (C06)', 'more points per phase than listed', 'weather', 'mass iteration']
    results = common.pmap(c02.run_job, jobs)
    cands = []
    c17_dirty = []
    for (status, out), job in zip(results, jobs):
        if status != 'ok':
            rep.inconclusive.append(f'job {job} failed: {out[:400]}')
            continue
        rep.merge_stats(out['stats'])
        for oid, d in out['obligations'].items():
            for r, n in d.items():
                for _ in range(n):
                    rep.obl(oid, r)
        rep.count('distinct', out['distinct'])
        for k, n in out['outcomes'].items():
            rep.extra.setdefault('outcomes', {})
            rep.extra['outcomes'][k] = rep.extra['outcomes'].get(k, 0) + n
        for s_ in out['samples'][:1]:
            rep.sample(dict(points=job['npts'], capacity=job['caps'], **s_))
        rep.extra.setdefault('jobs', []).append(dict(kind=job['kind'], points=job['npts'], capacity=job['caps'], paths=out['stats']['paths'], wall_s=out.get('wall_s')))
        if out['truncated']:
            rep.inconclusive.append(f"job points={job['npts']} capacity={job['caps']} hit its deadline")
        for u in out['unknown'][:2]:
            rep.inconclusive.append(f"points={job['npts']} capacity={job['caps']}: solver unknown on {u}")
        cands += [(job, v) for v in out['violations']]
        c17_dirty += out['c17']['dirty']
    rep.distinct = set(range(rep.counters.get('distinct', 0)))
    rep.extra['c17_builder_state_after_fly'] = dict(paths_with_extra_attributes=len(c17_dirty), examples=c17_dirty[:3])
    seen = set()
    for job, v in cands:
        if v['obligation'] == 'harness':
            rep.inconclusive.append(f"points={job['npts']} capacity={job['caps']}: {v['detail']}")
            continue
        aligned = (job['caps'][0] - job['npts'][0]) % 1 == 0
        key = (v['obligation'],)
        if key in seen:
            continue
        seen.add(key)
        ok, detail = c02.replay(job, v)
        tags = dict(obligation_group=v['obligation'].split('.')[1], capacity=list(job['caps']), points=list(job['npts']))
        d = f"{v['detail']} :: {detail}"
        if ok:
            pub = c02.public_api_replay((2, 4, 4))
            d += f" :: public API (sample model, step fractions giving (2,4,4) points, default buffers of 50): {pub[:2] if pub else 'no problem seen'}"
        rep.violation(v['obligation'], tags, d, ok, inputs=dict(values=v['values'], job=job))
    rep.vacuity_twin('returned trajectories and rejected missions were both explored', rep.extra.get('outcomes', {}).get('returned', 0) > 0 and len(rep.extra.get('outcomes', {})) > 1)
    # concolic validation: a returned path's model must replay as a returning run whose concrete obligations hold
    return rep.finish('Bounded symbolic verification: the real trajectory builder flies a symbolic mission (airport positions, elevations, ceiling, load factor) against a '
                      'nondeterministic performance model; on every explored path z3 decides for all inputs the bookkeeping obligations on the returned trajectory '
                      '(mass minus fuel constant, monotone masses/time/distance, first point, altitude schedule, phase hand-over, positions = great-circle points at the '
                      'recorded distance, finiteness, resampling) and that rejections are documented errors carrying the original reason. Counterexamples are replayed '
                      'with real numpy and pyproj, then on the shipped model through the public API.')
