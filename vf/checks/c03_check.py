"""C03 check driver."""
from __future__ import annotations

import itertools

from vf import common
from vf.harness import c03


def main():
    tier = common.tier()
    rep = common.Report('C03', 'other', 'proxy execution of the real store write/read code over a netCDF4 model with solver-chosen species membership per field, optional-field presence and file layout (exhaustive over the stated universe)')
    from AEIC.trajectories.store import TrajectoryStore as T
    import AEIC.trajectories.store as ST
    from AEIC.storage.field_sets import FieldMetadata, FieldSet
    rep.functions = common.fn_fingerprint(ST._create_dimensions, ST._create_vl_types, T._create_nc_file, T._write_data, T._write_to_nc_var, T._read_from_nc_var, T._load_trajectory,
                                          T.create_associated, T._retrieve_nc_species_values, FieldMetadata.convert_in, FieldMetadata.empty)
    U = [s_.name for s_ in c03.universe()]
    rep.bounds = dict(species_universe=U, membership='every subset of the universe independently for each of the three species-indexed fields (per-species scalar, per-species per-point, per-species per-thrust-mode)',
                      field_set='all six dimension combinations; float64/int32/int64/str scalars; float64/int32 per-point arrays; required and optional fields', trajectories='2 per store with 2 and 3 points; the second optionally with fewer species',
                      layouts=['single_file', 'base_plus_associated', 'create_associated'], thrust_mode_value_order=['enum', 'reversed'])
    rep.assumptions = ['netCDF4 replaced by the validated model (cells hold Python objects: the HDF5 encoding itself is outside); counterexamples replay on the real library',
                       'values are concrete tags; species membership bits, optional presence, layout and value order are solver variables enumerated exhaustively']
    rep.outside = ['HDF5 encoding (VL arrays, string fill values, dtype promotion)', 'species outside the universe', 'merged stores (C09)']
    jobs = []
    lays = ['single_file', 'base_plus_associated', 'create_associated']
    for lay in lays:
        nU = len(c03.universe())
        for bits in itertools.product([True, False], repeat=nU):
            fixed = dict(layout=lay, **{f'sp_tot_has_{j}': b for j, b in enumerate(bits)})
            if tier == 'quick':
                # quick: value order and optional-field presence alternate with the membership pattern instead of multiplying it
                fixed['thrust_mode_value_order'] = 'enum' if sum(bits) % 2 == 0 else 'reversed'
                fixed['optional_fields_set'] = bits[0]
            jobs.append(dict(fixed=fixed, deadline_s=600 if tier == 'quick' else 2500))
    results = common.pmap(c03.run, jobs)
    cands = []
    for (status, out), job in zip(results, jobs):
        if status != 'ok':
            rep.inconclusive.append(f'job {job} failed: {out[:400]}')
            continue
        rep.merge_stats(out['stats'])
        for oid, d in out['obligations'].items():
            for r, k in d.items():
                for _ in range(k):
                    rep.obl(oid, r)
        rep.count('distinct', out['distinct'])
        for s_ in out['samples'][:1]:
            rep.sample(s_)
        if out['truncated']:
            rep.inconclusive.append(f'job {job} hit its deadline')
        cands += [(job, v) for v in out['violations']]
    rep.distinct = set(range(rep.counters.get('distinct', 0)))
    rep.extra['exhaustive'] = True
    seen = set()
    for job, v in cands:
        if v['obligation'] == 'harness':
            rep.inconclusive.append(v['detail'])
            continue
        key = (v['obligation'], v['tags'].get('problem'), v['tags'].get('layout'))
        if key in seen:
            continue
        seen.add(key)
        ok, detail = c03.replay(job, v)
        rep.violation(v['obligation'], v['tags'], f"{v['detail']} :: {detail}", ok, inputs=v['values'])
    rep.vacuity_twin('round trips were explored', rep.stats.get('paths', 0) > 10)
    return rep.finish('Round trip of a trajectory through the store for a harness-registered field set covering all six dimension combinations and data types: every subset of a 4-species universe '
                      'independently per species-indexed field (including gaps in the enumeration and fields with different subsets), unset optional fields, thrust-mode values given in either order, '
                      'in one file, base plus associated file, and an associated file produced by mapping a function over the store; after reopening every field reads back equal by an independent comparator '
                      '(same species keys, none lost, none invented; same values; None stays None).')
