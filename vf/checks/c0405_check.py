"""C04 / C05 check driver (one exploration of the real gridding code, two obligation sets)."""
from __future__ import annotations

import math

from vf import common
from vf.harness import c0405 as H

PI = H.PI


def cells_of(lines, top_pad):
    """closed coordinate intervals of the cells of a lower-edge grid (the last one open-ended, padded)"""
    return [(lines[i], lines[i + 1] if i + 1 < len(lines) else lines[i] + top_pad) for i in range(len(lines))]


def jobs_for(tier):
    jobs = []
    dl = 900 if tier == 'quick' else 3000

    def add(name, grid, n_points, boxes, **kw):
        jobs.append(dict(name=name, deadline_s=dl, cfg=dict(grid=grid, n_points=n_points, boxes=boxes, with_alt=kw.get('alt', False), with_time=kw.get('time', False), n_state=kw.get('n_state', 1), n_int=kw.get('n_int', 1),
                                                              alt_boxes=kw.get('alt_boxes'), time_boxes=kw.get('time_boxes'))))

    def one_segment_everywhere(grid, label):
        glat, glon = H.GRIDS[grid]
        # the whole grid; on a regional grid the longitude extent is capped below pi so that no pair of points counts as
        # an antimeridian crossing (whose two-part path would leave the grid); crossings are explored on the global grids
        lon_lo = max(glon[0], -PI)
        lon_hi = min(glon[-1] + 0.5, PI) if glon[0] <= -PI else min(glon[-1] + 0.5, glon[0] + 3.1, PI)
        for a, (la0, la1) in enumerate(cells_of(glat, 0.3)):
            for b, (lo0, lo1) in enumerate(cells_of(glon, 0.5)):
                lo0, lo1 = max(lo0, lon_lo), min(lo1, lon_hi)
                if lo0 > lo1:
                    continue
                # first point in one closed cell (grid lines and corners included), second point anywhere in the grid
                add(f'{label}: one segment from cell ({a},{b})', grid, 2, [(la0, la1, lo0, lo1), (glat[0], glat[-1] + 0.3, lon_lo, lon_hi)])

    # 1. one segment, every pair of cells, no altitude/time axis (crossings excluded by the grid extent)
    one_segment_everywhere('fine2', 'fine2')
    # 2. altitude and time axes, two state and two integrated variables; horizontal part confined to two cells
    last_alt, last_time = (4000.0, 5000.0), (4000.0, 5000.0)
    add('altitude+time axes', 'fine2', 2, [(-0.2, 0.1, -0.3, -0.1), (-0.2, 0.1, -0.1, 0.3)], alt=True, time=True, n_state=2, n_int=2, alt_boxes=[None, last_alt], time_boxes=[None, last_time])
    add('altitude axis only, no variables', 'fine2', 2, [(-0.2, 0.1, -0.3, -0.1), (0.1, 0.35, -0.1, 0.3)], alt=True, n_state=0, n_int=0)
    add('time axis only', 'fine2', 2, [(-0.2, 0.1, -0.3, -0.1), (0.1, 0.35, -0.1, 0.3)], time=True, time_boxes=[None, last_time])
    add('altitude+time axes, two segments in one cell', 'fine2', 3, [(0.05, 0.06, 0.05, 0.06), (0.07, 0.08, 0.07, 0.08), (0.09, 0.1, 0.05, 0.1)], alt=True, time=True, alt_boxes=[None, None, last_alt], time_boxes=[(10.0, 20.0), None, last_time])
    # 3. antimeridian crossing, eastward and westward, on grids whose first longitude line is -pi / below -pi
    for grid in ('global_from_-pi', 'global_below_-pi') if tier != 'quick' else ('global_from_-pi',):
        add(f'{grid}: eastward crossing', grid, 2, [(-0.4, 0.6, 1.2, PI), (-0.4, 0.6, -PI, -1.2)])
        add(f'{grid}: westward crossing', grid, 2, [(-0.4, 0.6, -PI, -1.2), (-0.4, 0.6, 1.2, PI)])
    add('crossing with altitude+time', 'global_from_-pi', 2, [(0.0, 0.3, 2.0, PI), (0.0, 0.3, -PI, -2.0)], alt=True, time=True, alt_boxes=[None, last_alt], time_boxes=[None, last_time])
    # 4. two segments (bookkeeping across segments: masks by index change, repeat/cumsum/delete)
    add('two segments, second one longer', 'fine2', 3, [(-0.1, 0.1, 0.05, 0.1), (0.05, 0.1, -0.1, 0.45), (-0.3, 0.35, 0.05, 0.1)])
    add('two segments, first one longer', 'fine2', 3, [(-0.3, 0.35, 0.05, 0.1), (0.05, 0.1, -0.4, 0.1), (-0.1, 0.1, 0.05, 0.1)])
    add('three points with a crossing in the second segment', 'global_from_-pi', 3, [(0.0, 0.3, 1.0, 2.0), (0.0, 0.3, 2.0, PI), (0.0, 0.3, -PI, -2.0)])
    add('three points with a crossing in the first segment', 'global_from_-pi', 3, [(0.0, 0.3, 2.0, PI), (0.0, 0.3, -PI, -2.0), (0.0, 0.6, -2.0, -1.0)])
    if tier != 'quick':
        one_segment_everywhere('uneven', 'uneven')
        one_segment_everywhere('regional3x3', 'regional3x3')
        glat, glon = H.GRIDS['fine2']
        for a, (la0, la1) in enumerate(cells_of(glat, 0.3)):
            for b, (lo0, lo1) in enumerate(cells_of(glon, 0.5)):
                for band, (f0, f1) in enumerate([(-0.3, 0.0), (0.0, 0.2), (0.2, 0.45)]):
                    add(f'fine2: two segments, first point in latitude band {band}, middle point in cell ({a},{b})', 'fine2', 3, [(f0, f1, -0.4, 0.1), (la0, la1, lo0, lo1), (-0.1, 0.45, -0.1, 0.6)])
        add('altitude+time axes, both points free', 'fine2', 2, [(-0.2, 0.1, -0.3, -0.1), (-0.2, 0.1, -0.1, 0.3)], alt=True, time=True)
        for k, (lo, hi) in enumerate([(-0.3, 0.0), (0.0, 0.35)]):
            add(f'two segments, wide boxes, third point latitude band {k}', 'fine2', 3, [(-0.1, 0.1, -0.1, 0.1), (-0.1, 0.1, -0.1, 0.45), (lo, hi, -0.1, 0.1)])
            add(f'two segments, wide boxes reversed, first point latitude band {k}', 'fine2', 3, [(lo, hi, -0.1, 0.1), (-0.1, 0.1, -0.4, 0.1), (-0.1, 0.1, -0.1, 0.1)])
    return jobs


def main(pid):
    tier = common.tier()
    technique = 'proxy symbolic execution of the real numpy gridding code (SymArr object arrays, geodesic oracle) + z3 (nonlinear real arithmetic)'
    rep = common.Report(pid, 'other', technique)
    G = H.load()
    Gr = G.Gridder
    rep.functions = common.fn_fingerprint(Gr.grid_trajectory, Gr._grid_trajectory_without_dateline_crossing, Gr._grid_trajectory_with_dateline_crossing, Gr._calculate_segment_lengths,
                                          Gr._dateline_split_first_segment, Gr._dateline_split_second_segment, Gr._cell_idxs_and_variables_for_dateline_split_trajectory,
                                          Gr._trajectory_intersection_points_and_cells_horizontal, Gr._trajectory_segment_altitude_grid_indices, Gr._trajectory_segment_time_grid_indices,
                                          Gr._cell_idxs_touched_by_trajectory_with_state_and_integrated_vars, G.grid_cell_indices if hasattr(G, 'grid_cell_indices') else G.crosses_dateline,
                                          G.great_circle_distance, G.calculate_line_parameters, G.crosses_dateline)
    jobs = jobs_for(tier)
    rep.bounds = dict(grids={k: dict(lat_lines=v[0], lon_lines=v[1]) for k, v in H.GRIDS.items() if any(j['cfg']['grid'] == k for j in jobs)}, altitude_lines=H.ALT_LINES, time_lines=H.TIME_LINES,
                      points='2 points (one segment) anywhere in the grid, first grid lines, grid lines and corners included; 3 points (two segments) in the stated boxes; every coordinate, altitude, time and variable value a solver real',
                      variables='0-2 state and 0-2 integrated variables', jobs=[j['name'] for j in jobs])
    rep.assumptions = ['pyproj replaced by a geodesic oracle: a fresh distance >= 0 per distinct ordered pair of points, zero exactly when the two points coincide; the chain inequality (sum of piece lengths >= segment length) is assumed for each chain of pieces the code forms, so "never less" is decided and the size of the excess is not',
                       'cell convention of the code: grid values are lower edges, index i covers (g[i], g[i+1]], last cell open-ended, a value on the first grid line belongs to the first cell; a zero-length piece at longitude -pi may be listed in the cell containing +pi',
                       'the antimeridian segment follows the two-part path of the documented mechanism (to the meridian at the latitude of its first point, then on to the second point)']
    rep.stubs = ['shapely.geometry.Polygon (not installed; grid_polygon is outside the property)', 'AEIC.gridding.grid.np -> SymArr numpy shim', 'AEIC.gridding.grid.GEOD -> geodesic oracle', 'recorders around the per-part and horizontal routines (call the real methods)']
    rep.outside = ['magnitude of the great-circle/map-line excess (needs the numeric geodesic)', 'more than one antimeridian crossing (the code returns empty arrays with a warning)', 'grid_polygon and the legacy duplicate cells_touched_by_trajectory_with_state_and_integrated_variables',
                   'grids other than the stated ones; trajectories of more than 3 points; floating-point rounding (exact real arithmetic)']
    results = common.pmap(H.run, jobs)
    cands = []
    outcomes = {}
    mine = (lambda oid: oid.startswith('C04.') or oid in H.ALSO_C04) if pid == 'C04' else (lambda oid: oid.startswith('C05.'))
    name = (lambda oid: H.ALSO_C04.get(oid, oid)) if pid == 'C04' else (lambda oid: oid)
    for (status, out), job in zip(results, jobs):
        if status != 'ok':
            rep.inconclusive.append(f"job {job['name']} failed: {out[:400]}")
            continue
        rep.merge_stats(out['stats'])
        rep.extra.setdefault('job_wall_s', {})[job['name']] = (out['wall_s'], out['stats']['paths'])
        for oid, d in out['obligations'].items():
            if not mine(oid):
                continue
            for r, k in d.items():
                for _ in range(k):
                    rep.obl(name(oid), r)
        for k, n in out['outcomes'].items():
            outcomes[k] = outcomes.get(k, 0) + n
        rep.count('distinct', out['distinct'])
        for s_ in out['samples'][:1]:
            rep.sample(s_)
        if out['truncated']:
            rep.inconclusive.append(f"job {job['name']} hit its deadline")
        for a in out['aborted'][:2]:
            rep.inconclusive.append(f"job {job['name']}: path not modelled: {a[:300]}")
        for u in [u for u in out['unknown'] if mine(u.split(' ')[0])][:3]:
            rep.inconclusive.append(f"job {job['name']}: not decided: {u}")
        cands += [(job, v) for v in out['violations'] if mine(v['obligation'])]
    rep.distinct = set(range(rep.counters.get('distinct', 0)))
    rep.extra['outcomes'] = outcomes
    seen = set()
    for job, v in cands:
        oid = name(v['obligation'])
        key = (oid, v['tags']['grid'], v['tags'].get('what'))
        if key in seen:
            continue
        seen.add(key)
        ok, detail = H.replay(v)
        rep.violation(oid, v['tags'], f"{v['detail']} :: {detail}", ok, inputs=dict(values=v['values'], cfg=v['cfg']))
    rep.vacuity_twin('segments with several pieces and antimeridian crossings were explored', any(k.startswith('2 part') for k in outcomes) and any('5 pieces' in k or '4 pieces' in k for k in outcomes))
    if pid == 'C04':
        text = ('Bounded symbolic verification of conservation in trajectory gridding: the real Gridder.grid_trajectory runs on symbolic points, altitudes, times and variable values over concrete grids; z3 decides for all values that the '
                'pieces of every segment start at its first point, end at its second, lie on its map line and advance without overlap, that each piece value is the segment value times the geodesic length of exactly that piece over the '
                'geodesic length of the segment, that a single piece (including a zero-length segment) carries the whole value, that the pieces of a segment and the gridded total are never less than the segment value / trajectory total '
                '(given the metric chain inequality), and that the antimeridian segment is split at the meridian on the side of its first point in proportion to the two part lengths with the two parts adding up exactly.')
    else:
        text = ('Bounded symbolic verification of cell attribution in trajectory gridding: the real Gridder.grid_trajectory runs on symbolic points over concrete grids; z3 decides for all values that the pieces of every segment are in path '
                'order on its map line, that each piece lies inside the closed latitude/longitude cell it is attributed to, that the altitude and time cells and the state values are those of the segment\'s first point, that each piece '
                'receives its share of the segment length, and that cell, altitude, time, state and integrated arrays have matching lengths and are the concatenation of the parts in order.')
    return rep.finish(text + ' Counterexamples are replayed on the real code (real numpy and pyproj) by re-evaluating the same obligations numerically.')
