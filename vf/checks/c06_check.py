"""C06 check driver."""
from __future__ import annotations

from vf import common
from vf.harness import c06


def _q(job):
    return c06.run_queries(job)


def _p(job):
    return c06.run_ptf(job)


def _part(job):
    return (_q if job['kind'] == 'query' else _p)(job)


def main():
    tier = common.tier()
    rep = common.Report('C06', 'other', 'proxy symbolic execution of the real table model over a reference model of scipy interpn + z3; QF_FP query (z3, cross-checked by cvc5) for the metres/flight-level kernel')
    LM, BM = c06.mods()
    bpt, bpt_hash = c06.load_build_performance_table()
    rep.functions = common.fn_fingerprint(BM.BasePerformanceModel.evaluate, BM.BasePerformanceModel._evaluate_checked, LM.LegacyPerformanceModel.evaluate_impl,
                                          LM.PerformanceTable.interpolate, LM.Interpolator.__call__, LM.PerformanceTable.subset, LM.Interpolator.__init__) + \
        [f'AEIC.commands.make_performance_model.build_performance_table@{bpt_hash}']
    from AEIC.units import FL_TO_METERS, METERS_TO_FL
    tol = c06.edge_tolerance()
    rep.bounds = dict(table='flight levels per phase %s, masses %s (3 in climb/cruise, nominal only in descent), every table value symbolic' % (c06.FLS_BY_PHASE, c06.MASSES),
                      query='one evaluate() with symbolic altitude in [-2000,12000] m, symbolic mass or min/max, any phase, symbolic TAS/ROCD inputs',
                      fp_kernel=f'every integer flight level 0..600: (FL*{FL_TO_METERS!r})*{METERS_TO_FL!r} in IEEE double, tolerance applied by the implementation at table edges = {tol}',
                      ptf='2 rows per phase with symbolic values')
    rep.assumptions = ['grid coordinates are concrete (the pandas code that assembles the interpolators cannot carry symbols; it runs concretely on a table of the same shape)',
                       'scipy.interpolate.interpn(linear, bounds_error) is replaced by a reference model validated against scipy in each run', 'exact reals except in the QF_FP kernel']
    rep.stubs = ['interpn -> reference model (raises outside the grid, multilinear inside)']
    rep.outside = ['dense-grid refusal at load (PerformanceTable.__post_init__) and PerformanceTable.subset/Interpolator.__init__: pandas code, not decided by this technique',
                   'PTF text parsing (PTFData.load) and its unit conversions: regular expressions on text, not decided by this technique', 'more than 3 flight levels']
    results = common.pmap(_part, [dict(kind='query', deadline_s=400), dict(kind='ptf', deadline_s=200)])
    cands = []
    for (status, out), kind in zip(results, ('query', 'ptf')):
        if status != 'ok':
            rep.inconclusive.append(f'{kind} part failed: {out[:400]}')
            continue
        rep.merge_stats(out['stats'])
        for oid, d in out['obligations'].items():
            for r, n in d.items():
                for _ in range(n):
                    rep.obl(oid, r)
        rep.count('distinct', out['distinct'])
        for s_ in out['samples']:
            rep.sample(dict(part=kind, **s_))
        if out['truncated']:
            rep.inconclusive.append(f'{kind} part hit its deadline')
        for u in out['unknown'][:3]:
            rep.inconclusive.append(f'{kind}: solver unknown on {u}')
        cands += [(kind, v) for v in out['violations']]
    rep.distinct = set(range(rep.counters.get('distinct', 0)))
    seen = set()
    for kind, v in cands:
        if v['obligation'] == 'harness':
            rep.inconclusive.append(f'{kind}: {v["detail"]}')
            continue
        key = (v['obligation'], v['tags'].get('phase'))
        if key in seen:
            continue
        seen.add(key)
        ok, detail = (c06.replay_query if kind == 'query' else c06.replay_ptf)(v)
        rep.violation(v['obligation'], v['tags'], f"{v['detail']} :: {detail}", ok, inputs=v['values'])
    # E2: conversion kernel
    r, w, dt = c06.fp_roundtrip(tol)
    rep.count('queries')
    rep.stats['solver_s'] = rep.stats.get('solver_s', 0) + dt
    oid = 'C06.fp.tabulated_level_in_metres_is_inside_the_table'
    try:
        r2, w2, dt2 = c06.fp_roundtrip_cvc5(tol)
        rep.extra['cvc5_cross_check'] = dict(result=r2, witness=w2, seconds=round(dt2, 2))
        if r2 != 'unknown' and r != 'unknown' and r2 != r:
            rep.inconclusive.append(f'z3 ({r}) and cvc5 ({r2}) disagree on the QF_FP kernel')
    except Exception as e:  # noqa
        rep.extra['cvc5_cross_check'] = f'not available: {type(e).__name__}: {e}'
    rep.extra['fp_kernel'] = dict(result=r, witness_FL=w, seconds=round(dt, 2), tolerance=tol)
    if r == 'unsat':
        rep.obl(oid, 'unsat')
    elif r == 'sat':
        rep.obl(oid, 'sat')
        problems = c06.replay_top_level(w)
        rep.violation(oid, dict(part='fp kernel', kind='top flight level expressed in metres'),
                      f'FL {w}: (FL*FL_TO_METERS)*METERS_TO_FL differs from FL by more than the edge tolerance {tol}; real model with FL{w} as top level: {problems[:3]}', bool(problems), inputs=dict(FL=w))
    else:
        rep.obl(oid, 'unknown')
        rep.inconclusive.append('QF_FP kernel: solver unknown')
    n, worst = c06.validate_interpn()
    rep.validation.append(dict(name='interpn reference model vs scipy on nodes, edges, interiors and outside points (1-D and 2-D)', cases=n, max_abs_err=worst))
    if worst > 1e-12:
        rep.inconclusive.append('interpn reference model disagrees with scipy')
    rep.vacuity_twin('returning and refusing queries both explored', rep.obligations.get('C06.reject.only_outside_the_phase_envelope', {}).get('unsat', 0) > 0 and
                     rep.obligations.get('C06.reject.outside_the_phase_envelope_is_refused', {}).get('unsat', 0) > 0)
    return rep.finish('Bounded symbolic verification: one evaluate() of the real table model with every table value, the altitude and the mass symbolic; z3 decides for all of them '
                      'that the result is the piecewise (bi)linear interpolation of exactly the selected phase\\u2019s table at (altitude*METERS_TO_FL, mass) (hence exact at nodes, continuous, '
                      'bounded by the corner values), depends only on altitude, mass and phase, that states outside the phase\\u2019s flight-level range (or mass range where the phase table depends '
                      'on mass) are refused and nothing inside is, and that min/max mean the extreme table masses. A QF_FP query over all integer flight levels 0..600 decides whether a tabulated '
                      'level expressed in metres with the library\\u2019s own factors stays within the tolerance the implementation applies at table edges. build_performance_table reproduces every symbolic PTF row exactly once.')
