"""C07 check driver."""
from __future__ import annotations

from vf import common
from vf.harness import c07
from vf.models import fakenc_validate


def _job(job):
    return c07.run_kernel(job) if job['kind'] == 'kernel' else c07.run_histories(job)


def main():
    tier = common.tier()
    rep = common.Report('C07', 'model_checking', 'proxy symbolic execution of the real _load_trajectory with solver integers (z3 LIA) + exhaustive bounded operation histories on the real store over a netCDF4 model')
    from AEIC.trajectories.store import TrajectoryStore as T, TrajectoryCache
    rep.functions = common.fn_fingerprint(T._load_trajectory, T.add, T._write_data, T._write_trajectory, T.__getitem__, T.__len__, T.__iter__, T.sync, T.close,
                                          T._open, T._open_nc_file, T._create, T._create_nc_file, TrajectoryCache.popitem)
    L = 4 if tier == 'quick' else 5
    rep.bounds = dict(kernel='index 0..60, trajectories at open 1..20, added in session 0..20, merged stores of 2..4 files with 1..12 trajectories each: all as solver integers',
                      histories=f'every sequence of {L} operations from {c07.OPS} after create, read index chosen among 0..len (one beyond the end), cache either ample or 1 MB with trajectories reporting a small or a 600 kB size (thorough: also larger than the cache), file-backed and in-memory; plus every sequence of 3 operations starting from a file-backed store that already holds three trajectories, reopened for reading or for appending')
    rep.assumptions = ['netCDF4 is replaced by a model (vf/models/fakenc.py) that passes the repository\'s own storage tests; counterexamples are replayed on the real library',
                       'kernel: a variable read at a negative position is normalised against the file\'s current length (measured netCDF4 behaviour)',
                       'histories are an exhaustive enumeration of a finite space (operation codes are solver variables enumerated by the explorer), not a symbolic proof']
    rep.outside = [f'histories longer than {L} operations beyond what the kernel obligations imply', 'cache_size_mb = 0', 'HDF5 encoding']
    ok, tail = fakenc_validate.run()
    rep.validation.append(dict(name='repository tests test_storage/test_trajectories/test_emissions_storage with the netCDF4 model substituted', ok=ok, summary=tail))
    if not ok:
        rep.inconclusive.append('netCDF4 model does not pass the repository storage tests: ' + tail)
    import itertools
    # histories are partitioned over jobs by their first two (thorough: three) operations
    prefixes = list(itertools.product(c07.OPS, repeat=2 if tier == 'quick' else 3))
    jobs = [dict(kind='kernel')] + [dict(kind='hist', L=L, first_ops=list(pre), huge=(tier != 'quick'), deadline_s=800 if tier == 'quick' else 3000) for pre in prefixes]
    # histories that begin in a store already holding three trajectories, reopened for reading / appending
    # (3 further operations; thorough: also trajectories larger than the cache), partitioned by their first operation
    L2 = 3          # (4 operations from these states did not finish within an hour on 16 cores)
    for st in ('read3', 'append3'):
        pre2 = [[a] for a in c07.OPS]
        jobs += [dict(kind='hist', L=L2, first_ops=pre, start=st, huge=(tier != 'quick'), deadline_s=800 if tier == 'quick' else 3000) for pre in pre2]
    # the largest sub-trees first: histories on a pre-populated store, then by the number of additions in the prefix
    jobs.sort(key=lambda j: (0 if j.get('start') else 1, -sum(1 for o in j.get('first_ops', []) if o == 'add')))
    results = common.pmap(_job, jobs)
    cands = []
    for (status, out), job in zip(results, jobs):
        if status != 'ok':
            rep.inconclusive.append(f'job {job} failed: {out[:400]}')
            continue
        rep.merge_stats(out['stats'])
        for oid, d in out['obligations'].items():
            for r, n in d.items():
                for _ in range(n):
                    rep.obl(oid, r)
        rep.count('distinct', out['distinct'])
        for s_ in out['samples'][:2]:
            rep.sample(s_)
        if out['truncated']:
            rep.inconclusive.append(f'job {job} hit its deadline')
        for u in out['unknown'][:3]:
            rep.inconclusive.append(f'solver unknown on {u}')
        cands += [(job, v) for v in out['violations']]
    rep.distinct = set(range(rep.counters.get('distinct', 0)))
    rep.counters['states'] = rep.counters.get('distinct', 0)
    rep.counters['transitions'] = int(rep.stats.get('paths', 0)) * L
    seen = set()
    for job, v in cands:
        if v['obligation'] == 'harness':
            rep.inconclusive.append(v['detail'])
            continue
        key = (v['obligation'], v['tags'].get('session'), v['tags'].get('problem'), v['tags'].get('in_memory'))
        if key in seen:
            continue
        seen.add(key)
        if job['kind'] == 'kernel':
            ok, detail = c07.replay_kernel(v)
        else:
            ok, detail = c07.replay_history(v, job['L'], job.get('first_ops'), job.get('huge', False), job.get('start', 'empty'))
        rep.traces_validated += 1
        rep.violation(v['obligation'], v['tags'], f"{v['detail']} :: {detail}", ok, inputs=v['values'])
    # a few explored histories are replayed on the real library on every run (model validation)
    import vf.symex as sx
    for hist_vals in ({'small_cache': 1, 'in_memory': 0, 'op0': 0, 'op1': 0, 'op2': 6, 'op3': 1, 'i3': 1}, {'small_cache': 0, 'in_memory': 0, 'op0': 0, 'op1': 3, 'op2': 2, 'op3': 0}):
        run = sx.ConcreteRun(hist_vals)
        res, exc = run.run(c07.history_path(L, None, backend_kind='real'))
        rep.traces_validated += 1
        if exc is not None or res['problems']:
            rep.violation('C07.history.store_behaves_as_list', dict(problem='real-library sample', session='create'), f'real netCDF4 history {res and res["history"]}: {exc or res["problems"][:2]}', True)
    rep.vacuity_twin('kernel and histories both explored', rep.obligations.get('C07.history.store_behaves_as_list', {}).get('unsat', 0) > 0 and any(k.startswith('C07.kernel') for k in rep.obligations))
    rep.extra['exhaustive_histories'] = True
    return rep.finish('Kernel: the real index arithmetic of _load_trajectory is decided by z3 for every index, every number of trajectories at open time and added since, and every merged-store size vector (the position read is the position add wrote). '
                      f'Histories: all operation sequences of length {L} run on the real store over the netCDF4 model against a Python list; states = distinct conforming histories, transitions = executed operations, traces validated = histories/counterexamples replayed on the real netCDF4.')
