"""C08 check driver."""
from __future__ import annotations

from vf import common
from vf.harness import c08


def main():
    tier = common.tier()
    rep = common.Report('C08', 'model_checking', 'proxy symbolic execution of the real add/_reindex/get_flight/sync/close/merge index code with solver-integer identifiers (z3 LIA) over a netCDF4 model')
    from AEIC.trajectories.store import TrajectoryStore as T
    rep.functions = common.fn_fingerprint(T.add, T._reindex, T.get_flight, T.sync, T.close, T._open, T._create_merged_store_index, T._open_merged_store, T.merge)
    n = 3 if tier == 'quick' else 4
    rep.bounds = dict(identifiers=f'{n} distinct solver integers in [0, 10^6] (every relative order is a path) plus one identifier never added',
                      scenarios=c08.SCENARIOS, mixed='identified/unidentified first trajectory x create/append session')
    rep.assumptions = ['netCDF4 replaced by the validated model vf/models/fakenc.py (cells hold the solver integers); counterexamples replay on the real library with the model\'s identifier values',
                       'payloads are concrete tagged trajectories']
    rep.outside = [f'more than {n} trajectories per history', 'merged stores of more than 2 parts (C09)']
    jobs = [dict(kind='ids', n=n, scenarios=[s_], deadline_s=600 if tier == 'quick' else 2500) for s_ in c08.SCENARIOS] + [dict(kind='mixed')]
    results = common.pmap(c08.run, jobs)
    cands = []
    for (status, out), job in zip(results, jobs):
        if status != 'ok':
            rep.inconclusive.append(f'job {job} failed: {out[:400]}')
            continue
        rep.merge_stats(out['stats'])
        for oid, d in out['obligations'].items():
            for r, k in d.items():
                for _ in range(k):
                    rep.obl(oid, r)
        rep.count('distinct', out['distinct'])
        for s_ in out['samples'][:1]:
            rep.sample(s_)
        if out['truncated']:
            rep.inconclusive.append(f'job {job} hit its deadline')
        for u in out['unknown'][:3]:
            rep.inconclusive.append(f'solver unknown on {u}')
        cands += [(job, v) for v in out['violations']]
    rep.distinct = set(range(rep.counters.get('distinct', 0)))
    rep.counters['states'] = rep.counters.get('distinct', 0)
    rep.counters['transitions'] = int(rep.stats.get('paths', 0)) * (n + 2)
    seen = set()
    for job, v in cands:
        if v['obligation'] == 'harness':
            rep.inconclusive.append(v['detail'])
            continue
        key = (v['obligation'], v['tags'].get('scenario'), v['tags'].get('problem'))
        if key in seen:
            continue
        seen.add(key)
        ok, detail = c08.replay(job, v)
        rep.traces_validated += 1
        rep.violation(v['obligation'], v['tags'], f"{v['detail']} :: {detail}", ok, inputs=v['values'])
    rep.vacuity_twin('identifier orderings were explored', rep.stats.get('forks', 0) > 0)
    return rep.finish('The real index code (staleness flag on add, _reindex, sorted (identifier, index) table with binary search, merged index with offsets) runs with solver-integer flight identifiers: '
                      'sorted() and bisect fork on symbolic comparisons, so every insertion order is covered; on every path looking up each added identifier returns exactly the trajectory added with it and an '
                      'identifier never added returns nothing -- immediately after adds, after sync, across append sessions, after reopening and in a merged store; mixing identified and unidentified trajectories is refused in every session kind.')
