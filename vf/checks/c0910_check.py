"""C09 and C10 check drivers."""
from __future__ import annotations

from vf import common
from vf.harness import c09, c10


def _run(job):
    return c10.run(job) if job['kind'] == 'reject' else c09.run(job)


def _replay(job, v):
    return c10.replay(job, v) if job['kind'] == 'reject' else c09.replay(job, v)


def main(pid):
    tier = common.tier()
    level = 'model_checking' if pid == 'C09' else 'fault_enumeration'
    rep = common.Report(pid, level, 'proxy symbolic execution of the real merge/add code over a netCDF4 model with solver-chosen layouts, identifiers and fault points')
    from AEIC.trajectories.store import TrajectoryStore as T
    rep.functions = common.fn_fingerprint(T.merge, T._check_merge_arguments, T._open_merged, T._open_merged_store, T._create_merged_store_index, T._load_trajectory, T.add,
                                          T._write_data, T._write_to_nc_var, T.get_flight, T.close)
    maxp = 3 if tier == 'quick' else 4
    dl = 600 if tier == 'quick' else 2500
    if pid == 'C09':
        jobs = [dict(kind='merge', max_parts=maxp, fixed=dict(parts=k, naming=nm), deadline_s=dl) for k in range(1, maxp + 1) for nm in c09.NAMINGS] + [dict(kind='refusal', deadline_s=dl)]
        rep.bounds = dict(parts=f'1..{maxp}', sizes='1 or 2 trajectories per part', naming=list(c09.NAMINGS), how='explicit list; numbered pattern for the unpadded-number names',
                          identifiers='distinct solver integers (every relative order) or none', associated='without, or every part created with one or with two associated files (one field set each); each family of associated files merged into its own store and all of them opened together with the merged base store', refusals='different field sets, mixed identification, same file name in two directories, missing input, wrong extension, existing output')
        rep.outside = ['more than two associated stores per base store', f'more than {maxp} parts', 'parts with more than 2 trajectories (sizes are covered for all values by the C07 kernel)']
    else:
        jobs = [dict(kind='reject', n_adds=2 if tier == 'quick' else 3, deadline_s=dl), dict(kind='crash', deadline_s=dl), dict(kind='refusal', deadline_s=dl)]
        rep.bounds = dict(rejected_add=f'every kind in {c10.KINDS} at every position of a sequence of {2 if tier == "quick" else 3} additions, in create, append and in-memory sessions, identified and unidentified stores',
                          merge_faults='a failure injected at each of the file-system steps of merge (mkdir, each rename, index file creation, metadata.json write) for 3 inputs, identified and not',
                          merge_refusals='each validation rule; inputs must stay readable and the corrected retry must succeed')
        rep.outside = ['faults inside the netCDF/HDF5 library while a file is being written', 'power-loss style partial writes of a single file']
    rep.assumptions = ['netCDF4 replaced by the validated model; directory operations are the real ones on a scratch directory; counterexamples replay on the real library']
    for j in jobs:
        j['pid'] = pid
    results = common.pmap(_run, jobs)
    cands = []
    for (status, out), job in zip(results, jobs):
        if status != 'ok':
            rep.inconclusive.append(f'job {job} failed: {out[:400]}')
            continue
        rep.merge_stats(out['stats'])
        for oid, d in out['obligations'].items():
            for r, k in d.items():
                for _ in range(k):
                    rep.obl(oid, r)
        rep.count('distinct', out['distinct'])
        for s_ in out['samples'][:1]:
            rep.sample(s_)
        if out['truncated']:
            rep.inconclusive.append(f'job {job} hit its deadline')
        cands += [(job, v) for v in out['violations']]
    rep.distinct = set(range(rep.counters.get('distinct', 0)))
    rep.counters['states'] = rep.counters.get('distinct', 0)
    rep.counters['transitions'] = int(rep.stats.get('paths', 0))
    seen = set()
    for job, v in cands:
        if v['obligation'] == 'harness':
            rep.inconclusive.append(v['detail'])
            continue
        key = (v['obligation'],) + tuple(sorted((k, str(x)) for k, x in v['tags'].items() if k in ('case', 'naming', 'kind', 'session', 'failing_step', 'how')))
        if key in seen:
            continue
        seen.add(key)
        ok, detail = _replay(job, v)
        rep.traces_validated += 1
        rep.violation(v['obligation'], v['tags'], f"{v['detail']} :: {detail}", ok, inputs=v['values'])
    rep.vacuity_twin('layouts were explored', rep.stats.get('paths', 0) > 3)
    if pid == 'C09':
        txt = ('Merged stores: for every explored layout (parts, sizes, names whose given order differs from alphabetical order, explicit list or numbered pattern, solver-integer identifiers in every order) the real merge and the '
               'real merged-store reader give length = sum, i-th trajectory = i-th of the concatenation, identifier lookup across parts, and invalid inputs are refused with the inputs left readable and a corrected retry succeeding. '
               'states = distinct conforming layouts/orderings, transitions = explored paths, traces validated = counterexamples replayed on the real netCDF4.')
    else:
        txt = ('Fault enumeration: every kind of rejected addition at every position of an add sequence in every session kind leaves length, contents, next index and the reopened file as a list model that ignored the rejection; '
               'a failure injected at every file-system step of merge leaves each trajectory readable from its original file or the merged directory and never a metadata.json announcing parts that are missing; refusals keep inputs readable and retries work.')
    return rep.finish(txt)
