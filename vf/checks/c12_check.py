"""C12 check driver."""
from __future__ import annotations

from vf import common
from vf.harness import c12


def main():
    rep = common.Report('C12', 'other', 'proxy symbolic execution of the real EI/atmosphere functions with transcendental functions as axiomatised uninterpreted functions + z3')
    import AEIC.utils.standard_atmosphere as SA
    import AEIC.emissions.utils as U
    import AEIC.emissions.types as ET
    import AEIC.emissions.ei.nox as N
    import AEIC.emissions.ei.hcco as H
    import AEIC.emissions.ei.pmvol as PV
    import AEIC.emissions.ei.pmnvol as PN
    from AEIC.emissions.ei.sox import EI_SOx
    rep.functions = common.fn_fingerprint(SA.temperature_at_altitude_isa_bada4, SA.pressure_at_altitude_isa_bada4, SA.altitude_from_pressure_isa_bada4,
                                          U.get_SLS_equivalent_fuel_flow, U.get_thrust_cat_cruise, ET.AtmosphericState.__init__, N.BFFM2_EINOx, N.NOx_speciation,
                                          H.EI_HCCO, EI_SOx, PV.EI_PMvol_FOA3, PV.EI_PMvol_FuelFlow, PN.calculate_PMnvolEI_scope11)
    rep.bounds = dict(points='one or two evaluation points per call (the functions are elementwise)', calibration='four symbolic positive calibration modes (any order, equal values allowed; HC/CO reference in the quick tier: approach flow above idle flow, any order of the indices)',
                      ranges='altitude 0-30 km, Mach 0-0.95, temperatures 150-330 K, pressures 1-110 kPa, fuel flows from below zero to above take-off flow')
    rep.assumptions = ['exp, log, log10, 10^x, x^c are uninterpreted with sound instantiated axioms (positivity, monotonicity, values at 0/1, pow(pow(x,a),b)=pow(x,ab), log(exp z)=z); UF arguments are normalised and rounded to 12 significant digits',
                       'exact real arithmetic; equalities asserted at relative 1e-9',
                       'the pressure-to-altitude conversion is checked on the branch that monotonicity of the pressure formula implies (stated as an assumed instance)',
                       'linear scaling: for indices multiplied by k > 0 the instances log10(k*x) = log10 k + log10 x (per calibration index) and 10^(a + log10 k) = k * 10^a (per pair of 10^x applications of the two runs) are assumed; both are instances of true identities',
                       'HC/CO and NOx references are written in the harness from the method descriptions (SAGE/BFFM2 bilinear fit with clamping rules and ACRP low-thrust factor; BFFM2 log-log regression with the Goff-Gratch humidity term at 60 % relative humidity)']
    rep.outside = ['numeric accuracy of libm and any claim needing the value of a transcendental function', 'the cited papers\' own correctness',
                   'MEEM (PMnvol_MEEM): only exercised concretely by the repository tests, not decided here',
                   'HC/CO and NOx: agreement with the transcription and linear scaling are decided for positive evaluation flows and (NOx) calibration flows that are not all equal; the value returned for a non-positive evaluation flow is only shown finite and non-negative']
    import itertools
    jobs = [dict(item=k) for k in c12.ITEMS if k != 'hcco_ref']
    # HC/CO: the input space is partitioned over jobs (order of idle/approach flows, order of idle/approach indices,
    # evaluation flow below idle, or at/above idle and below/not below the approach and climb flows)
    # quick tier: approach calibration flow above the idle flow (the certification order); thorough: also equal and reversed
    orders = '>' if common.tier() == 'quick' else '<>='
    jobs += [dict(item='hcco_ref', case=list(c), deadline_s=900 if common.tier() == 'quick' else 3000) for c in itertools.product(orders, '<>=', ('low', 'h00', 'h01', 'h10', 'h11'))]
    results = common.pmap(c12.run_item, jobs)
    cands = []
    for (status, out), job in zip(results, jobs):
        if status != 'ok':
            rep.inconclusive.append(f"item {job['item']} failed: {out[:400]}")
            continue
        rep.merge_stats(out['stats'])
        for oid, d in out['obligations'].items():
            for r, n in d.items():
                for _ in range(n):
                    rep.obl(oid, r)
        rep.count('distinct', out['distinct'])
        for s_ in out['samples'][:1]:
            rep.sample(s_)
        if out['truncated']:
            rep.inconclusive.append(f"item {job['item']} {job.get('case') or ''} hit its deadline")
        for u in out['unknown'][:3]:
            rep.inconclusive.append(f"{job['item']}: solver unknown on {u}")
        cands += [(job, v) for v in out['violations']]
    rep.distinct = set(range(rep.counters.get('distinct', 0)))
    seen = set()
    for job, v in cands:
        key = (v['obligation'], v['tags'].get('case'))
        if key in seen:
            continue
        seen.add(key)
        ok, detail = c12.replay(job, v)
        rep.violation(v['obligation'], v['tags'], f"{v['detail']} :: {detail}", ok, inputs=v['values'])
    rep.vacuity_twin('every item discharged obligations', all(any(k.startswith(p) and d['unsat'] > 0 for k, d in rep.obligations.items())
                                                              for p in ('C12.isa', 'C12.ffm2', 'C12.thrust_category', 'C12.sox', 'C12.foa3', 'C12.scope11', 'C12.hcco', 'C12.bffm2')))
    return rep.finish('Bounded symbolic verification of the emission-index building blocks: ISA temperature/pressure (both layers, refusal above 25 km, algebraic inverse), the Fuel Flow Method 2 '
                      'sea-level correction and Mach number, thrust categories (exactly one, midpoint thresholds, monotone in fuel flow for every positive calibration set), SOx stoichiometry, '
                      'FOA3 and fuel-flow volatile PM, SCOPE11 (invalid smoke numbers, cap at 40, engine types), and sign/finiteness/speciation coupling of BFFM2 NOx and HC/CO: each against an independent '
                      'transcription of the cited equation over the whole input range, with transcendental functions uninterpreted.')
