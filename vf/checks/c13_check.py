"""C13 check driver."""
from __future__ import annotations

from vf import common
from vf.harness import c13


def main():
    tier = common.tier()
    rep = common.Report('C13', 'other', 'proxy symbolic execution of the real schedule importer over a civil-time model (solver integers, uninterpreted UTC offsets) and the geodesic oracle + z3')
    import AEIC.missions.oag as OAG
    import AEIC.missions.writable_database as WD
    W = WD.WritableDatabase
    rep.functions = common.fn_fingerprint(OAG.CSVEntry.is_row_valid, OAG.CSVEntry.from_csv_row, OAG.OAGDatabase.add, W._add_schedule, W._add_flight, W._set_flight_count, W._distance_check, W._warn)
    maxlen = 2 if tier == 'quick' else 3
    rep.bounds = dict(rows='CrossHair: symbolic strings/ints for carrier, service, stops, operating flag, equipment code, HHMM times, arrival-day code, YYYYMMDD dates, weekday string; per-contract time limit 60-300 s', effective_range=f'symbolic first day in 2019, 1..{maxlen} days, every subset of operating weekdays; open-ended from/to (concrete year, fixed zone)',
                      times='departure/arrival hour and minute as solver integers, arrival day offset -1..2, UTC offsets of both airports uninterpreted functions of (zone, local time) in [-14h, +14h] in quarter hours',
                      distance='stated distance and airport positions symbolic over the geodesic oracle', airports='origin or destination unknown')
    rep.assumptions = ['pandas/zoneinfo replaced by a civil-time model: date_range(a,b) yields a..b; ISO weekday = (ordinal+3) mod 7 + 1; replace(tzinfo=Z) fixes the UTC offset off(Z, local time); adding a timedelta to a zone-aware time adds elapsed time; timestamp = local seconds - offset',
                       'geodesic library = recording oracle']
    rep.stubs = ['sqlite cursor -> recording cursor', '_get_or_add_airport -> two airports with symbolic positions or None (unknown)', 'pd, ZoneInfo, EPOCH, timedelta, int, DayOfWeek.from_pandas in writable_database -> civil-time model']
    rep.outside = ['correctness of real time-zone/DST data and of pd.date_range (C code): the model is validated by replaying on the real importer', 'CSV field strings beyond the stated contract bounds (carrier<=2, service<=1, operating<=1, equipment<=3 characters, stops 0..12, weekday strings of <=2 (quick) / <=3 (thorough) characters, dates with day<=28)',
                   f'ranges longer than {maxlen} days with symbolic times']
    out = c13.run(dict(max_len=maxlen, deadline_s=900 if tier == 'quick' else 3000))
    rep.merge_stats(out['stats'])
    for oid, d in out['obligations'].items():
        for r, k in d.items():
            for _ in range(k):
                rep.obl(oid, r)
    rep.distinct = set(range(out['distinct']))
    rep.extra['outcomes'] = out['outcomes']
    for s_ in out['samples']:
        rep.sample(s_)
    if out['truncated']:
        rep.inconclusive.append('exploration hit its deadline')
    for u in out['unknown'][:3]:
        rep.inconclusive.append('solver unknown: ' + u)
    seen = set()
    for v in out['violations']:
        if v['obligation'] == 'harness':
            rep.inconclusive.append(v['detail'])
            continue
        key = (v['obligation'], v['tags'].get('open_ended') if 'distance' not in v['obligation'] else None, v['tags'].get('what'), v['tags'].get('signature'))
        if key in seen:
            continue
        seen.add(key)
        ok, detail = c13.replay(v)
        rep.violation(v['obligation'], v['tags'], f"{v['detail']} :: {detail}", ok, inputs=v['values'])
    # row filter and field parsing: CrossHair contracts on the real CSVEntry code
    from vf.crosshair import runner
    mod = 'vf.crosshair.c13_rows'
    specs = [('filter_only_documented_reasons', 120), ('times_parse', 120), ('arrday_parse', 60), ('dates_parse', 120), ('weekdays_parse_2' if tier == 'quick' else 'weekdays_parse_3', 300),
             ('filter_twin', 60), ('parse_twin', 60)]
    t0 = __import__('time').time()
    for r in runner.run_all(mod, specs):
        if r['fn'].endswith('_twin'):
            rep.vacuity_twin(f"CrossHair reachability twin {r['fn']} is refuted", r['verdict'] == 'sat')
            continue
        oid = f"C13.rows.{r['fn']}"
        rep.obl(oid, r['verdict'])
        if r['verdict'] == 'sat':
            ok, detail = runner.replay_call(mod, r['call'])
            rep.violation(oid, dict(contract=r['fn']), f"CrossHair counterexample: {detail}", ok, inputs=dict(call=r['call']))
        elif r['verdict'] == 'unknown':
            rep.inconclusive.append(f"CrossHair did not confirm {r['fn']}: {r['out'][-150:]}")
    rep.extra['crosshair_wall_s'] = round(__import__('time').time() - t0, 1)
    # validation of the civil-time model on the real importer (runs on every check)
    ok, detail = c13.replay(dict(obligation='C13.instances.validation'))
    rep.validation.append(dict(name='real importer on LAX-JFK rows across both 2019 DST changes and a summer range, arrival offsets 0/1/2, vs independent zoneinfo computation', disagreement=ok, detail=detail))
    rep.vacuity_twin('paths with instances, skips and refusals were explored', len(out['outcomes']) >= 3)
    return rep.finish('Bounded symbolic verification of the schedule import: the real OAGDatabase.add/_add_schedule/_add_flight/_set_flight_count/_distance_check run on a symbolic schedule row; z3 decides for all inputs that the '
                      'effective dates handed to the expansion are the defaulted ones, that exactly the dates in range on operating weekdays produce one instance each with departure and arrival equal to the UTC instants of the local times '
                      '(arrival day offset applied to the local date before the zone is attached), that instances whose arrival precedes departure are dropped with the warning, that the count stored on the flight equals the instances inserted, '
                      'that the route key is direction independent, and that a row is skipped only for an unknown airport or an implausible distance by the documented rule, measured between the airports in (lon, lat) order.')
