"""C14 check driver."""
from __future__ import annotations

from vf import common
from vf.harness import c14


def main():
    tier = common.tier()
    rep = common.Report('C14', 'translation_validation', 'symbolic parameters through the real SQL generators; generated WHERE text interpreted over a symbolic joined row and compared with a documented predicate by z3')
    import AEIC.missions.query as Q
    from AEIC.missions.filter import Filter
    rep.functions = common.fn_fingerprint(Filter.to_sql, Filter._airport_condition, Filter._country_condition, Filter._continent_condition, Filter._bounding_box_condition,
                                          Filter._normalize, Filter._spatial, Q.QueryBase._common_conditions, Q.QueryBase._where_clause, Q.Query.to_sql, Q.CountQuery.to_sql,
                                          Q.FrequentFlightQuery.to_sql, Q.date_to_timestamp)
    rep.bounds = dict(shapes='groups of conditions are conjuncts: each group (numeric/list filters; spatial filters; dates, every-nth, sampling, limit/offset and filter none/empty/set) is enumerated exhaustively on its own, and all groups set together with the query group enumerated; within a group every combination of: each numeric range set or not; service type none/single string/1/2/empty list; aircraft type none/2; spatial none, combined (4 kinds) or origin x destination (none+4 kinds each) with 1-2 codes given as string or list; start/end date set or not; Query: every-nth none/1/3, sampling set or not, limit/offset; CountQuery; FrequentFlightQuery',
                      values='every parameter value is a solver variable (codes are integers, numbers are reals); one joined row with symbolic columns; airports/countries/continents/locations as uninterpreted functions of the airport id',
                      spatial_rule='all 4096 presence patterns of the 12 spatial fields')
    rep.assumptions = ['SQL semantics of the generated fragment are those of vf/models/sqlmini.py (comparisons, IN lists, the three airport sub-selects, the location-index box, AND/OR, BETWEEN, %, the random() term as a fresh value in (0,1)); counterexamples are replayed through real sqlite',
                       'the r-tree location index holds point boxes (min = max = airport position)']
    rep.outside = ['sqlite executor, r-tree float32 rounding, ORDER BY stability', 'sampling statistics (only "applied exactly once")', 'true instance counts of the frequent-route query on real data (statement structure only)']
    dl = 900 if tier == 'quick' else 3000
    jobs = [dict(kind='normalize')]
    for k in ('Query', 'CountQuery', 'FrequentFlightQuery'):
        for vary in (['simple'], ['spatial'], ['query'], ['all_set'], ['all_set', 'query']) + ((['simple', 'query'], ['spatial', 'query']) if tier != 'quick' else ()):
            if k != 'Query' and vary in (['simple'], ['spatial']) and tier == 'quick':
                continue      # the filter part is shared code: varied under Query in the quick tier, under all three in thorough
            jobs.append(dict(kind='query', query_kind=k, vary=vary, deadline_s=dl))
    results = common.pmap(c14.run, jobs)
    cands = []
    programs = 0
    for (status, out), job in zip(results, jobs):
        if status != 'ok':
            rep.inconclusive.append(f'job {job} failed: {out[:400]}')
            continue
        rep.merge_stats(out['stats'])
        programs += out['stats']['paths']
        for oid, d in out['obligations'].items():
            for r, k in d.items():
                for _ in range(k):
                    rep.obl(oid, r)
        rep.count('distinct', out['distinct'])
        for s_ in out['samples'][:1]:
            rep.sample(s_)
        if out['truncated']:
            rep.inconclusive.append(f'job {job} hit its deadline')
        for u in out['unknown'][:3]:
            rep.inconclusive.append(f'not decided: {u}')
        cands += [(job, v) for v in out['violations']]
    rep.distinct = set(range(rep.counters.get('distinct', 0)))
    seen = set()
    n_dis = 0
    for job, v in cands:
        if v['obligation'] == 'harness':
            rep.inconclusive.append(v['detail'])
            continue
        key = (v['obligation'], v['tags'].get('what'), v['tags'].get('dates') if v['obligation'].startswith('C14.where') else '', v['tags'].get('query'))
        if key in seen:
            continue
        seen.add(key)
        n_dis += 1
        if job['kind'] == 'normalize':
            ok, detail = True, 'Filter(...).to_sql() on concrete values behaves as reported (deterministic shape check)'
        else:
            ok, detail = c14.replay(job, v)
        rep.violation(v['obligation'], v['tags'], f"{v['detail']} :: {detail}", ok, inputs=dict(values=v['values'], row=v.get('row')))
    rep.extra.update(programs=int(programs), disagreements_checked=n_dis)
    rep.vacuity_twin('statements with and without conditions were generated', rep.obligations.get('C14.where.equivalent_to_documented_predicate', {}).get('unsat', 0) > 10)
    return rep.finish('Translation validation of the generated SQL: for every query/filter shape the statement text produced by the real generators (with solver variables as parameter values) is parsed, '
                      'its WHERE clause interpreted over one symbolic joined row, and z3 decides that it selects exactly the rows the documented predicate selects, for all rows and parameter values; '
                      'placeholders and parameters align one-to-one, ORDER BY/LIMIT/OFFSET/COUNT/GROUP BY structure is as documented, dates are inclusive from 00:00 of the start date to 24:00 of the end date, an empty filter adds '
                      'no condition, the spatial compatibility rule holds for all 4096 presence patterns, and building the SQL twice gives the same statement and an independent parameter list. '
                      'programs = generated statements, disagreements checked = counterexample rows replayed through real sqlite.')
