"""C15 check driver."""
from __future__ import annotations

from vf import common
from vf.harness import c15


def main():
    tier = common.tier()
    rep = common.Report('C15', 'other', 'proxy symbolic execution of the real GroundTrack / Mission.gc_distance over a recording geodesic oracle + z3 dataflow obligations')
    from AEIC.trajectories.ground_track import GroundTrack
    import AEIC.missions.mission as MM
    rep.functions = common.fn_fingerprint(GroundTrack.__init__, GroundTrack.__contains__, GroundTrack.lookup_waypoint, GroundTrack.location,
                                          GroundTrack._overstep, GroundTrack.step, GroundTrack.Point.__post_init__, MM.Mission.__dict__['gc_distance'].func)
    nmax = 3 if tier == 'quick' else 4
    jobs = [dict(kind='mission')] + [dict(kind='track', n=n) for n in range(2, nmax + 1)]
    rep.bounds = dict(waypoints=f'2..{nmax}', operations='one location(a) or step(a, b) with symbolic a, b (any sign, inside and beyond the track), allow_overstep both ways')
    rep.assumptions = ['GEOD.inv/fwd are recording oracles returning fresh values (distance >= 0, angles in [-180,180]); pyproj being a correct WGS-84 implementation is trusted',
                       'exact real arithmetic']
    rep.stubs = ['AEIC.trajectories.ground_track.GEOD and AEIC.missions.mission.GEOD -> recording oracle']
    rep.outside = ['pyproj numerics (antimeridian/polar behaviour of pyproj itself)', f'tracks with more than {nmax} waypoints']
    results = common.pmap(c15.run_job, jobs)
    cands = []
    for (status, out), job in zip(results, jobs):
        if status != 'ok':
            rep.inconclusive.append(f'job {job} failed: {out[:300]}')
            continue
        rep.merge_stats(out['stats'])
        for oid, d in out['obligations'].items():
            for r, n in d.items():
                for _ in range(n):
                    rep.obl(oid, r)
        rep.count('distinct', out['distinct'])
        for s_ in out['samples'][:2]:
            rep.sample(dict(job=job, **s_))
        if out['truncated']:
            rep.inconclusive.append(f'job {job} hit its deadline')
        for u in out['unknown'][:3]:
            rep.inconclusive.append(f'{job}: solver unknown on {u}')
        cands += [(job, v) for v in out['violations']]
    rep.distinct = set(range(rep.counters.get('distinct', 0)))
    seen = set()
    for job, v in cands:
        if v['obligation'] == 'harness':
            rep.inconclusive.append(f'{job}: {v["detail"]}')
            continue
        key = (v['obligation'], v['tags'].get('op'), v['tags'].get('allow_overstep'))
        if key in seen:
            continue
        seen.add(key)
        ok, detail = c15.replay(job, v)
        rep.violation(v['obligation'], v['tags'], f"{v['detail']} :: real pyproj: {detail}", ok, inputs=v['values'])
    tw = sum(d['unsat'] for k, d in rep.obligations.items() if k.startswith('C15.location.forward_from'))
    rep.vacuity_twin('paths that return an interpolated point exist and their obligations were discharged', tw > 0)
    rep.vacuity_twin('refusing paths exist', any(k.startswith('C15.refusal') for k in rep.obligations))
    # translation validation of the oracle-based formulation: the unmodified tree must agree with pyproj numerically
    ok, detail = c15.replay(dict(kind='track', n=3), dict(values={}))
    rep.validation.append(dict(name='real GroundTrack vs independent pyproj computation on fixed layouts (3 waypoints, location)', disagreement=ok, detail=detail))
    return rep.finish('Bounded symbolic verification: GroundTrack.__init__/location/step/_overstep and Mission.gc_distance run on symbolic waypoints and '
                      'distances with the geodesic library replaced by a recording oracle; z3 decides for every waypoint layout and distance that the '
                      'returned position is the oracle forward result from the start waypoint of the segment containing the distance, by exactly the '
                      'distance offset (overstep: continuing the last segment from its start), that refusals happen only for documented reasons, that '
                      'azimuths are normalised to [0,360), and that every oracle call passes (lon, lat) in the same order. Counterexamples are replayed with the real pyproj.')
