"""C16 check driver."""
from __future__ import annotations

import shutil

from vf import common
from vf.harness import c16


def main():
    rep = common.Report('C16', 'other', 'proxy symbolic execution of the real Weather.get_ground_speed (sin/cos as unit-circle UFs) + z3 QF_NRA')
    import AEIC.weather as W
    rep.functions = common.fn_fingerprint(W.Weather.get_ground_speed, W.Weather._require_data, W.Weather._require_main_ds)
    rep.bounds = dict(inputs='one point: symbolic TAS in [1,400], wind components in [-150,150], any heading, altitude, position; wind possibly missing (NaN) in either component; explicit azimuth or ground-track azimuth')
    rep.assumptions = ['sin/cos are uninterpreted values on the unit circle (sin^2+cos^2=1): the claim covers every heading but not libm accuracy',
                       'exact real arithmetic', 'the interpolated wind is an arbitrary value (spatial/temporal interpolation is xarray, a declared oracle)']
    rep.stubs = ['self._ds -> object whose [\'u\'/\'v\'].interp(...) returns a symbolic wind component or a missing value and records its keyword arguments',
                 'pressure_at_altitude_isa_bada4 -> recording uninterpreted function (its formula is C12)', '_require_data -> no-op (file handling is not part of the statement)']
    rep.outside = ['xarray interpolation numerics', 'libm accuracy']
    rep.bounds['data_selection'] = 'one query at a symbolic time from an arbitrary cache state satisfying the cache invariant (empty / file open / file open and hour slice taken; files with or without a time axis); the invariant is re-proved after the step'
    out = c16.run()
    rep.merge_stats(out['stats'])
    for oid, d in out['obligations'].items():
        for r, n in d.items():
            for _ in range(n):
                rep.obl(oid, r)
    rep.distinct = set(range(out['distinct']))
    for s_ in out['samples']:
        rep.sample(s_)
    if out['truncated']:
        rep.inconclusive.append('exploration hit its deadline')
    for u in out['unknown'][:3]:
        rep.inconclusive.append('solver unknown: ' + u)
    out2 = c16.run_cache()
    rep.merge_stats(out2['stats'])
    for oid, d in out2['obligations'].items():
        for r, n in d.items():
            for _ in range(n):
                rep.obl(oid, r)
    rep.distinct |= {('cache', i) for i in range(out2['distinct'])}
    for s_ in out2['samples']:
        rep.sample(dict(part='data selection', **s_))
    if out2['truncated']:
        rep.inconclusive.append('data-selection exploration hit its deadline')
    scratch = common.scratch_dir('c16')
    try:
        seen = set()
        for v in out2['violations']:
            if v['obligation'] == 'harness':
                rep.inconclusive.append(v['detail'])
                continue
            key = (v['obligation'], v['tags'].get('cache_state'))
            if key in seen:
                continue
            seen.add(key)
            ok, detail = c16.replay_cache(v, str(scratch))
            rep.violation(v['obligation'], v['tags'], f"{v['detail']} :: real Weather on synthetic daily files: {detail}", ok, inputs=v['values'])
        for v in out['violations']:
            if v['obligation'] == 'harness':
                rep.inconclusive.append(v['detail'])
                continue
            if v['obligation'] in seen:
                continue
            seen.add(v['obligation'])
            if v['obligation'].startswith('C16.interp') or v['obligation'].startswith('C16.domain') or v['obligation'] in ('C16.returns_inside_domain', 'C16.nonnegative'):
                ok, detail = c16.replay(dict(v, obligation='C16.tailwind_adds'), str(scratch))
            else:
                ok, detail = c16.replay(v, str(scratch))
            sig = out.get('signature', [])
            signature = 'gs = |TAS*(cos h, sin h) + wind| (east/north swapped)' if sig and all(x == 'unsat' for x in sig) else 'other'
            rep.violation(v['obligation'], dict(v['tags'], signature=signature, component='heading decomposition' if v['obligation'] in ('C16.tailwind_adds', 'C16.headwind_subtracts', 'C16.vector_sum') else 'other'),
                          f"{v['detail']} :: {detail}", ok, inputs=v['values'])
        # validation of the stubbed data path: no wind and outside-domain behaviour on the real xarray path
        got = c16.real_ground_speed([dict(u=0.0, v=0.0, tas=230.0, heading_deg=77.0), dict(u=10.0, v=-5.0, tas=230.0, heading_deg=45.0, lat=80.0, lon=10.0)], str(scratch))
        rep.traces_validated = 2
        rep.validation.append(dict(name='real xarray path: zero wind gives TAS; a point outside the file domain is refused', results=[str(g) for g in got]))
        if not (isinstance(got[0], float) and abs(got[0] - 230.0) < 1e-9):
            rep.violation('C16.no_wind_gives_airspeed', dict(stage='real file'), f'zero-wind file returned {got[0]}', True)
        if not (isinstance(got[1], str) and 'ValueError' in got[1]):
            rep.violation('C16.domain.outside_refused', dict(stage='real file'), f'point outside the data domain returned {got[1]}', True)
    finally:
        shutil.rmtree(scratch, ignore_errors=True)
    rep.vacuity_twin('returning and refusing paths both explored', 'C16.domain.outside_refused' in rep.obligations and 'C16.bounds' in rep.obligations)
    return rep.finish('Bounded symbolic verification of one ground-speed evaluation: the real get_ground_speed runs on symbolic airspeed, heading, altitude, '
                      'position and interpolated wind; with sin/cos as values on the unit circle z3 (QF_NRA) decides for all inputs: no wind gives TAS, '
                      'a tailwind W along (sin h, cos h) gives TAS+W, a headwind gives |TAS-W|, the result is the vector-sum length and lies in '
                      '[|TAS-W|, TAS+W]; the pressure level handed to the interpolation is the ISA pressure of the altitude in hPa at the point latitude/longitude; '
                      'a missing wind value is refused. Counterexamples are replayed through real xarray on a synthetic uniform-wind file.')
