"""C17 check driver."""
from __future__ import annotations

from vf import common
from vf.harness import c17


def main():
    tier = common.tier()
    rep = common.Report('C17', 'model_checking', 'proxy symbolic execution of the real Builder.fly/_iterate_mass (inductive step, symbolic failure points and residuals) + z3')
    from AEIC.trajectories.builders.base import Builder
    bounds = dict(max_iters=4 if tier == 'quick' else 6)
    rep.functions = common.fn_fingerprint(Builder.fly, Builder._iterate_mass, Builder.__getattr__, Builder.__setattr__, Builder.__init__)
    rep.bounds = dict(flights='one flight from the clean builder state (inductive step; the proved post-condition is the same clean state)',
                      max_mass_iters=bounds['max_iters'], failure_points='context constructor, starting-mass calculation, every iteration',
                      rejection_kinds=[f'{a}: {b}' for a, b in c17.REJECTIONS])
    rep.assumptions = ['the context class and the phase loop are stubs: the constructor, calc_starting_mass and each iteration may raise any documented rejection or succeed with symbolic results',
                       'module/class-level mutable state is not modelled (the builder instance dictionary is the state)',
                       'bit-identity of floating-point results is not a solver statement; it is checked on concrete flight sequences of the real LegacyBuilder in the validation stage']
    rep.outside = ['state kept outside the builder instance', 'more than %d mass iterations' % bounds['max_iters']]
    out = c17.run(bounds)
    rep.merge_stats(out['stats'])
    for oid, d in out['obligations'].items():
        for r, n in d.items():
            for _ in range(n):
                rep.obl(oid, r)
    rep.distinct = out['distinct']
    rep.extra['outcomes'] = out['outcomes']
    for s in out['samples']:
        rep.sample(s)
    if out['truncated']:
        rep.inconclusive.append('exploration hit its deadline')
    for u in out['unknown'][:3]:
        rep.inconclusive.append('solver returned unknown: ' + u)
    seen = set()
    for v in out['violations']:
        key = (v['obligation'], v['tags'].get('failure_site'))
        if key in seen:
            continue
        seen.add(key)
        if v['obligation'] == 'C17.harness':
            rep.inconclusive.append(v['detail'])
            continue
        ok, detail = c17.replay(v, bounds)
        rep.violation(v['obligation'], v['tags'], f"{v['detail']} :: replay on the real Builder.fly with concrete values: {detail}", ok, inputs=v['values'])
    # vacuity: a returning path and a rejecting path exist
    rep.vacuity_twin('some path returns a trajectory', out['outcomes'].get('returned', 0) > 0)
    rep.vacuity_twin('some path raises an injected rejection', any(k != 'returned' for k in out['outcomes']))
    # validation on the implementation: concrete histories on the real LegacyBuilder
    try:
        n, problems = c17.real_histories()
        rep.traces_validated = n
        rep.validation.append(dict(name='flight sequences (ok / rejected / ok ...) on one real LegacyBuilder vs fresh builders, compared bitwise', flights=n, problems=problems[:5]))
        for pr in problems[:5]:
            if 'internal error' in pr:
                rep.violation('C17.error.original_reason_surfaces', dict(failure_site='context', outcome='AttributeError', iterate_mass='any', stage='real LegacyBuilder'), pr, True)
            else:
                rep.violation('C17.history.identical_to_fresh_builder', dict(stage='real LegacyBuilder'), pr, True)
    except Exception as e:  # noqa
        rep.inconclusive.append(f'real-history validation failed to run: {type(e).__name__}: {e}')
    rep.counters['states'] = int(rep.stats.get('paths', 0))
    rep.counters['transitions'] = int(rep.stats.get('paths', 0))
    return rep.finish('Inductive step for history independence: from a clean builder (instance dictionary = {options}) the real Builder.fly is executed '
                      'symbolically with a stub context whose constructor, starting-mass calculation and every iteration may raise a documented rejection '
                      '(symbolic failure point) or succeed with symbolic residuals; z3 shows on every path that the builder is left clean (so by induction '
                      'every flight starts from the same state), that the exception leaving fly is the injected one, and that a returned trajectory is '
                      'the last flown one with residual within tolerance. states/transitions = explored paths; traces validated = concrete flights of '
                      'the real LegacyBuilder compared bitwise with fresh builders.')
