"""C17 check driver."""
from __future__ import annotations

from vf import common
from vf.harness import c17


def main():
    tier = common.tier()
    rep = common.Report('C17', 'model_checking', 'proxy symbolic execution of the real Builder.fly/_iterate_mass (inductive step, symbolic failure points and residuals) + z3')
    from AEIC.trajectories.builders.base import Builder
    bounds = dict(max_iters=4 if tier == 'quick' else 6)
    rep.functions = common.fn_fingerprint(Builder.fly, Builder._iterate_mass, Builder.__getattr__, Builder.__setattr__, Builder.__init__)
    rep.bounds = dict(flights='one flight from the clean builder state (inductive step; the proved post-condition is the same clean state)',
                      max_mass_iters=bounds['max_iters'], failure_points='context constructor, starting-mass calculation, every iteration',
                      rejection_kinds=[f'{a}: {b}' for a, b in c17.REJECTIONS])
    rep.assumptions = ['the context class and the phase loop are stubs: the constructor, calc_starting_mass and each iteration may raise any documented rejection or succeed with symbolic results',
                       'module/class-level mutable state is not modelled (the builder instance dictionary is the state)',
                       'bit-identity of floating-point results is not a solver statement; it is checked on concrete flight sequences of the real LegacyBuilder in the validation stage']
    rep.outside = ['state kept outside the builder instance', 'more than %d mass iterations' % bounds['max_iters']]
    out = c17.run(bounds)
    rep.merge_stats(out['stats'])
    for oid, d in out['obligations'].items():
        for r, n in d.items():
            for _ in range(n):
                rep.obl(oid, r)
    rep.distinct = out['distinct']
    rep.extra['outcomes'] = out['outcomes']
    for s in out['samples']:
        rep.sample(s)
    if out['truncated']:
        rep.inconclusive.append('exploration hit its deadline')
    for u in out['unknown'][:3]:
        rep.inconclusive.append('solver returned unknown: ' + u)
    seen = set()
    for v in out['violations']:
        key = (v['obligation'], v['tags'].get('failure_site'))
        if key in seen:
            continue
        seen.add(key)
        if v['obligation'] == 'C17.harness':
            rep.inconclusive.append(v['detail'])
            continue
        ok, detail = c17.replay(v, bounds)
        rep.violation(v['obligation'], v['tags'], f"{v['detail']} :: replay on the real Builder.fly with concrete values: {detail}", ok, inputs=v['values'])
    # --- the same statement on the real LegacyBuilder: a flight on a used builder (after a successful or a rejected
    #     flight) is term-for-term the flight a fresh builder produces for the same performance-model answers
    from vf.harness import c02
    tier = common.tier()
    fails = [None, [0], [4]] if tier == 'quick' else [None] + [[k] for k in range(10)]
    jobs2 = [dict(npts=(2, 2, 2), caps=(3, 2), deadline_s=500 if tier == 'quick' else 2500, first_may_fail=f is not None, fail_only_at=f) for f in fails]
    # the same two flights with every input in a range where no refusal or corner case is possible: a counterexample
    # found in the sign abstraction then replays on the real code whatever values the solver picked for the products
    jobs2 += [dict(npts=(2, 2, 2), caps=(3, 2), deadline_s=500 if tier == 'quick' else 2500, first_may_fail=False, fail_only_at=None, regime='comfortable')]
    # the second mission between the same airports with the same aircraft type as the first (a schedule repeating a
    # city pair) but with its own load factor and performance answers: anything remembered per route would show here
    jobs2 += [dict(npts=(2, 2, 2), caps=(3, 2), deadline_s=500 if tier == 'quick' else 2500, first_may_fail=False, fail_only_at=None, regime='comfortable', same_route=True)]
    if tier != 'quick':
        jobs2 += [dict(npts=(2, 2, 2), caps=(3, 2), deadline_s=2500, first_may_fail=f is not None, fail_only_at=f, same_route=True) for f in (None, [0], [4])]
    if tier != 'quick':
        jobs2 += [dict(npts=(3, 2, 2), caps=(2, 2), deadline_s=2500, first_may_fail=False, fail_only_at=None)]
    rep.bounds['legacy_builder_two_flights'] = 'flight 1 (symbolic mission and model, succeeding or refused by the model at call %s) then flight 2 (another symbolic mission/model, or a mission between the same airports with the same aircraft type and its own load factor and model answers) on the same real LegacyBuilder, compared with flight 2 on a fresh builder; 2 points per phase' % [f for f in fails]
    rep.functions += common.fn_fingerprint(c02.mods()['LG'].LegacyBuilder.calc_starting_mass, c02.mods()['LG'].LegacyBuilder._fly_level_change, c02.mods()['LG'].LegacyBuilder.fly_cruise, c02.mods()['LG'].LegacyContext.__init__)
    for (status, o2), job in zip(common.pmap(c02.run_two_flights, jobs2), jobs2):
        if status != 'ok':
            rep.inconclusive.append(f'two-flight job {job} failed: {o2[:300]}')
            continue
        rep.merge_stats(o2['stats'])
        for oid, d in o2['obligations'].items():
            for r, n in d.items():
                for _ in range(n):
                    rep.obl(oid, r)
        rep.distinct |= {('two flights', job['fail_only_at'] and job['fail_only_at'][0], i) for i in range(o2['distinct'])}
        for k, n in o2['outcomes'].items():
            rep.extra['outcomes'][k] = rep.extra['outcomes'].get(k, 0) + n
        for s_ in o2['samples'][:1]:
            rep.sample(s_)
        if o2['truncated']:
            rep.inconclusive.append(f'two-flight job {job} hit its deadline')
        for u in o2['unknown'][:2]:
            rep.inconclusive.append(f'two-flight job: solver unknown on {u}')
        seen2 = set()
        for v in o2['violations']:
            if v['obligation'] == 'harness':
                rep.inconclusive.append(v['detail'])
                continue
            if v['obligation'] in seen2:
                continue
            seen2.add(v['obligation'])
            ok, detail = c02.replay_two_flights(job, v)
            rep.violation(v['obligation'], dict(v['tags'], stage='real LegacyBuilder, symbolic'), f"{v['detail']} :: {detail}", ok, inputs=v['values'])
    # vacuity: a returning path and a rejecting path exist
    rep.vacuity_twin('some path returns a trajectory', out['outcomes'].get('returned', 0) > 0)
    rep.vacuity_twin('some path raises an injected rejection', any(k != 'returned' for k in out['outcomes']))
    # validation on the implementation: concrete histories on the real LegacyBuilder
    try:
        n, problems = c17.real_histories()
        rep.traces_validated = n
        rep.validation.append(dict(name='flight sequences (ok / rejected / ok ...) on one real LegacyBuilder vs fresh builders, compared bitwise', flights=n, problems=problems[:5]))
        for pr in problems[:5]:
            if 'internal error' in pr:
                rep.violation('C17.error.original_reason_surfaces', dict(failure_site='context', outcome='AttributeError', iterate_mass='any', stage='real LegacyBuilder'), pr, True)
            else:
                rep.violation('C17.history.identical_to_fresh_builder', dict(stage='real LegacyBuilder'), pr, True)
    except Exception as e:  # noqa
        rep.inconclusive.append(f'real-history validation failed to run: {type(e).__name__}: {e}')
    rep.counters['states'] = int(rep.stats.get('paths', 0))
    rep.counters['transitions'] = int(rep.stats.get('paths', 0))
    return rep.finish('Inductive step for history independence: from a clean builder (instance dictionary = {options}) the real Builder.fly is executed '
                      'symbolically with a stub context whose constructor, starting-mass calculation and every iteration may raise a documented rejection '
                      '(symbolic failure point) or succeed with symbolic residuals; z3 shows on every path that the builder is left clean (so by induction '
                      'every flight starts from the same state), that the exception leaving fly is the injected one, and that a returned trajectory is '
                      'the last flown one with residual within tolerance. states/transitions = explored paths; traces validated = concrete flights of '
                      'the real LegacyBuilder compared bitwise with fresh builders.')
