"""C18 check driver."""
from __future__ import annotations

from vf import common
from vf.harness import c18


def _part(name):
    fn, obl = c18.PARTS[name]
    out = c18.run_part(fn, obl, name)
    out['distinct'] = len(out['distinct'])
    return out


def main():
    rep = common.Report('C18', 'model_checking', 'proxy symbolic execution of the real validator/get/reset/proxy/load bodies inside a model of the pydantic pipeline + z3')
    from AEIC.config.core import Config, ConfigProxy, deep_update
    rep.functions = common.fn_fingerprint(*[f for _, f in c18.after_validators()], Config.get.__func__, Config.reset, Config.load.__func__,
                                          ConfigProxy.__getattr__, ConfigProxy.__setattr__, deep_update)
    rep.bounds = dict(machine='one operation (load/reset/get/proxy read/proxy write) from an arbitrary singleton state; load fails at any of: field validation, path normalisation, each file lookup',
                      overlay='three layers (defaults, file, keyword data; also without a file), 2 top-level keys x (plain value | section with any subset of 2 keys), every presence pattern enumerated, leaf values symbolic')
    rep.assumptions = ['pydantic runs field validation first and then the mode="after" validators in definition order, stopping at the first exception (order confirmed on the real class in the validation stage)',
                       'immutability itself is enforced inside pydantic-core: frozen=True is read reflectively for every model class reachable from Config and mutation attempts are exercised on the real objects in the validation stage',
                       'a key is a section in every layer or a plain value in every layer']
    rep.outside = ['trees deeper than 2 levels', 'pydantic-core internals', 'concurrent loads']
    parts = [n for n in c18.PARTS if not (common.tier() == 'quick' and n == 'overlay_file[dict,dict]')]
    rep.bounds['parts'] = parts
    results = common.pmap(_part, parts)
    cands = []
    for (status, out), name in zip(results, parts):
        if status != 'ok':
            rep.inconclusive.append(f'part {name} failed: {out[:300]}')
            continue
        rep.merge_stats(out['stats'])
        for oid, d in out['obligations'].items():
            for r, n in d.items():
                for _ in range(n):
                    rep.obl(oid, r)
        rep.count('distinct', out['distinct'])
        for s_ in out['samples'][:2]:
            rep.sample(dict(part=name, **s_))
        if out['truncated']:
            rep.inconclusive.append(f'part {name} hit its deadline')
        for u in out['unknown'][:3]:
            rep.inconclusive.append(f'{name}: solver unknown on {u}')
        cands += [(name, v) for v in out['violations']]
    rep.distinct = set(range(rep.counters.get('distinct', 0)))
    seen = set()
    for name, v in cands:
        if v['obligation'] == 'harness':
            rep.inconclusive.append(f'{name}: {v["detail"]}')
            continue
        key = (v['obligation'],)
        if key in seen:
            continue
        seen.add(key)
        ok, detail = c18.replay(name, v)
        tags = dict(part=name)
        if name == 'machine':
            tags.update({k: v['values'].get(k) for k in ('configured_before', 'op')})
            tags['failing_stage'] = next((k for k in ('field_invalid', 'normalize_path_raises', 'file_missing_1', 'file_missing_2', 'file_missing_3') if v['values'].get(k)), 'none')
        rep.violation(v['obligation'], tags, f"{v['detail']} :: concrete replay of the same step: {detail}", ok, inputs=v['values'])
    rep.vacuity_twin('machine part explored loads that succeed and loads that fail', rep.obligations.get('C18.load.success_installs_that_instance', {}).get('unsat', 0) > 0 and
                     (rep.obligations.get('C18.load.failed_load_leaves_unconfigured', {}).get('unsat', 0) + rep.obligations.get('C18.load.failed_load_leaves_unconfigured', {}).get('sat', 0)) > 0)
    try:
        n, problems, facts = c18.real_sequences()
        rep.traces_validated = n
        rep.validation.append(dict(name='load/reset/get/mutation sequences on the real pydantic Config', steps=n, problems=problems[:6], **facts))
        for pr in problems[:6]:
            if 'failed load' in pr or 'after failed load' in pr:
                rep.violation('C18.load.failed_load_leaves_unconfigured', dict(part='real class', detail=pr.split('(')[1].split(')')[0] if '(' in pr else pr), pr, True)
            else:
                rep.violation('C18.real_class', dict(part='real class', what=pr[:60]), pr, True)
    except Exception as e:  # noqa
        import traceback
        rep.inconclusive.append(f'real-class validation failed to run: {type(e).__name__}: {e} {traceback.format_exc()[-300:]}')
    rep.counters['states'] = 2
    rep.counters['transitions'] = int(rep.stats.get('paths', 0))
    return rep.finish('Three-state machine, inductive step: from each singleton state (unconfigured / configured) every operation is executed on the real '
                      'bodies of the after-validators, Config.get/reset and ConfigProxy inside a model of the pydantic pipeline with symbolic failure '
                      'points; z3 decides per path that the outcome and the post-state are those of the reference machine. Overlay precedence: the real '
                      'Config.load body merges symbolic-leaf trees of every shape and must equal an independent flatten-and-mask formulation. '
                      'states = singleton states, transitions = explored operation paths, traces validated = steps of concrete sequences on the real class.')
