"""C19 check driver."""
from __future__ import annotations

import numpy as np

from vf import common
from vf.harness import c19


def main():
    tier = common.tier()
    rep = common.Report('C19', 'other', 'proxy symbolic execution of the real BADA-3 model per kernel + z3 (QF_NRA)')
    M, FB, SA = c19.mods()
    fm = M.Bada3FuelBurnModel
    rep.functions = common.fn_fingerprint(fm.calculate_cl, fm.calculate_cd, fm.calculate_drag, fm.calculate_thrust_by_total_energy, fm.calculate_thrust,
                                          fm.calculate_specific_ground_range, fm.iterate_flight_simulation_constant_initial_mass,
                                          fm.iterate_flight_simulation_constant_final_mass, fm.iterate_flight_simulation_fuel_burn_dependent_initial_mass_rf_fraction,
                                          fm.iterate_flight_simulation_fuel_burn_dependent_initial_mass_rf_value, fm.create_engine_model,
                                          FB.BaseFuelBurnModel.update_mass_vector, FB.BaseFuelBurnModel.update_mass_vector_backward,
                                          *[getattr(c, m) for c in (M.Bada3JetEngineModel, M.Bada3TurbopropEngineModel, M.Bada3PistonEngineModel)
                                            for m in ('calculate_nominal_fuel_flow', 'calculate_cruise_fuel_flow', 'calculate_max_climb_thrust_isa')],
                                          M.Bada3EngineModel.calculate_max_climb_thrust, M.Bada3EngineModel.calculate_max_cruise_thrust,
                                          M.Bada3EngineModel.calculate_descent_thrust_high, M.Bada3EngineModel.calculate_descent_thrust_low, SA.calculate_air_density)
    bounds = dict(n_thrust=2, n_mass=3 if tier == 'quick' else 4, n_iter=3 if tier == 'quick' else 4)
    rep.bounds = dict(points_per_thrust_or_range_evaluation=bounds['n_thrust'], points_per_mass_profile=bounds['n_mass'], iterations=bounds['n_iter'],
                      engine_types=c19.ENGINES, segment_distance='scalar and per-segment array')
    rep.assumptions = ['physically plausible parameters: all BADA coefficients > 0, TAS in [1,400] m/s, ground speed >= 1 m/s, segment length >= 0, specific ground range >= 0',
                       'exact real arithmetic', 'compositional: the thrust kernel is checked with its sub-equations as free values, each sub-equation separately against an independent transcription of the BADA 3 manual; the drivers with the specific-ground-range kernel as a nondeterministic stub']
    rep.stubs = ['scipy.integrate.cumulative_trapezoid -> reference model cumsum(dx*(y[i]+y[i+1])/2) (validated against scipy in each run)',
                 'ISA temperature/pressure -> free values (C12)']
    rep.outside = [f'profiles longer than {bounds["n_mass"]} points', 'float rounding', 'the BADA manual itself']
    jobs = [dict(kernel=k, bounds=bounds) for k in c19.KERNELS]
    results = common.pmap(c19.run_kernel, jobs)
    cands = []
    for (status, out), job in zip(results, jobs):
        if status != 'ok':
            rep.inconclusive.append(f"kernel {job['kernel']} failed: {out[:300]}")
            continue
        rep.merge_stats(out['stats'])
        for oid, d in out['obligations'].items():
            for r, n in d.items():
                for _ in range(n):
                    rep.obl(oid, r)
        rep.count('distinct', out['distinct'])
        for s_ in out['samples']:
            rep.sample(dict(kernel=job['kernel'], **s_))
        if out['truncated']:
            rep.inconclusive.append(f"kernel {job['kernel']} hit its deadline")
        for u in out['unknown'][:3]:
            rep.inconclusive.append(f"{job['kernel']}: solver unknown on {u}")
        cands += [(job, v) for v in out['violations']]
    rep.distinct = set(range(rep.counters.get('distinct', 0)))
    seen = set()
    for job, v in cands:
        key = (v['obligation'], v['tags'].get('case'), v['tags'].get('exception'), v['tags'].get('engine'))
        if key in seen:
            continue
        seen.add(key)
        ok, detail = c19.replay(job, v)
        rep.violation(v['obligation'], v['tags'], f"{v['detail']} :: {detail}", ok, inputs=v['values'])
    # translation validation of the trapezoid model against scipy
    from scipy.integrate import cumulative_trapezoid
    import vf.symex as sx
    run = sx.ConcreteRun({})
    worst = 0.0
    rng = np.random.default_rng(common.seed())
    for dx in (2.5, np.array([1.0, 3.0, 0.5, 2.0])):
        y = rng.random(5)
        got, _ = run.run(lambda ex: c19.trapz_model(y, dx=dx))
        worst = max(worst, float(np.max(np.abs(got - cumulative_trapezoid(y, dx=dx)))))
    rep.validation.append(dict(name='cumulative_trapezoid reference model vs scipy (scalar and per-segment dx)', max_abs_err=worst))
    if worst > 1e-12:
        rep.inconclusive.append('trapezoid reference model disagrees with scipy')
    rep.vacuity_twin('every kernel produced discharged obligations', all(any(k.startswith(p) and d['unsat'] > 0 for k, d in rep.obligations.items())
                                                                          for p in ('C19.equation', 'C19.thrust', 'C19.sgr', 'C19.mass', 'C19.driver')))
    return rep.finish('Bounded symbolic verification per kernel of the BADA-3 fuel-burn model given the library\\u2019s own parameter object: each implemented equation '
                      'equals an independent transcription; thrust = total-energy thrust capped by max climb/cruise thrust and replaced by high/low descent thrust when negative; '
                      'fuel flow uses the cruise correction only in cruise; mass profiles are anchored at the prescribed end, each step decrease equals the trapezoid of fuel flow '
                      'over ground speed (scalar and per-segment distances) and mass never increases; the drivers keep these and the fuel-dependent ones never exceed MTOW.')
