"""C20 check driver: AST-generated interleaving BMC + settrace replay."""
from __future__ import annotations

import shutil
import time

from vf import common
from vf.harness import c20


SCENARIOS_THOROUGH = [
    ('A constructs three times with closes; B constructs twice', ['__init__', 'close', '__init__', 'close', '__init__'], ['__init__', '__init__']),
    ('A constructs, B constructs twice and closes between', ['__init__'], ['__init__', 'close', '__init__']),
]

SCENARIOS = [
    ('race: A and B each construct their first store', ['__init__'], ['__init__']),
    ('A constructs, closes, constructs again; B constructs at any time', ['__init__', 'close', '__init__'], ['__init__']),
    ('A constructs twice (second call may fail); B constructs at any time', ['__init__', '__init__'], ['__init__']),
]


def main():
    tier = common.tier()
    rep = common.Report('C20', 'model_checking', 'bounded model checking (z3) of a transition system generated from the constructor AST; schedules replayed with a sys.settrace line scheduler')
    from AEIC.trajectories.store import TrajectoryStore
    try:
        progs, touching, methods = c20.extract(TrajectoryStore)
    except c20.Unsupported as e:
        rep.inconclusive.append(f'unsupported guard shape: {e}')
        return rep.finish('encoding could not be generated')
    rep.functions = common.fn_fingerprint(TrajectoryStore.__init__, TrajectoryStore.close, *[getattr(TrajectoryStore, m) for m in sorted(touching)])
    rep.extra['instructions'] = {k: [repr(i) for i in v if i.op != 'maybe_raise' or True][:60] for k, v in progs.items()}
    rep.extra['methods_touching_owner_record'] = sorted(touching)
    rep.bounds = dict(threads=2, constructor_calls='A: up to 2 (with optional close between), B: 1', atomicity='source line',
                      unrolling='sum of the instruction counts of both threads (no loops in the encoded region)')
    rep.assumptions = ['statements that do not mention the owner record have no effect on it and may raise at any point (nondeterministic)',
                       'which except-handler catches is nondeterministic', 'pre-emption inside one source line is outside the claim',
                       'thread identifiers are distinct and non-None']
    rep.outside = ['more than two threads', 'bytecode-level pre-emption inside a line', 'threads other than via the constructor/close/methods that mention the owner record']
    scratch = common.scratch_dir('c20')
    states = transitions = 0
    try:
        for name, ca, cb in SCENARIOS + (SCENARIOS_THOROUGH if tier == 'thorough' else []):
            ca = [c for c in ca if c in progs]
            cb = [c for c in cb if c in progs]
            for allow in (False, True):
                tag = f'{name}; abstract statements may raise={allow}'
                ths = [c20.Thread(c20.A_ID, ca, progs), c20.Thread(c20.B_ID, cb, progs)]
                # vacuity twins: each thread alone can be admitted, and "A admitted, B refused" is reachable
                for goal in ('A', 'B', 'B_refused_after_A'):
                    r, tr, dt, K = c20.bmc(ths, allow, goal=goal)
                    rep.count('queries')
                    rep.stats['solver_s'] = rep.stats.get('solver_s', 0) + dt
                    ok = r == 'sat'
                    if ok:
                        # translation validation: the model's schedule is enforced on the real class; the real outcome
                        # (which threads were admitted) must be the model's
                        ths_r = [c20.Thread(c20.A_ID, ca, progs), c20.Thread(c20.B_ID, cb, progs)]
                        out = c20.replay(TrajectoryStore, ths_r, tr['trace'], str(scratch))
                        rep.traces_validated += 1
                        model_adm = tr['admitted']
                        agree = out['admitted'] == model_adm
                        if not agree:
                            rep.inconclusive.append(f'{tag}: model/implementation disagree on twin schedule (goal {goal}): model admitted={model_adm}, real={out}')
                        ok = agree
                    rep.vacuity_twin(f'{tag}: goal {goal} reachable and replays identically on the real class', ok)
                blocked = []
                for attempt in range(5):
                    r, tr, dt, K = c20.bmc(ths, allow, block=blocked)
                    rep.count('queries')
                    rep.stats['solver_s'] = rep.stats.get('solver_s', 0) + dt
                    states += K * 2
                    transitions += K
                    oid = 'C20.no_two_threads_admitted'
                    if r == 'unsat':
                        rep.obl(oid, 'unsat')
                        rep.distinct.add((name, allow))
                        rep.sample(dict(scenario=tag, result='unsat', unrolling=K, solver_s=round(dt, 3)))
                        break
                    if r != 'sat':
                        rep.obl(oid, 'unknown')
                        rep.inconclusive.append(f'{tag}: solver returned {r}')
                        break
                    rep.obl(oid, 'sat')
                    ths_r = [c20.Thread(c20.A_ID, ca, progs), c20.Thread(c20.B_ID, cb, progs)]
                    out = c20.replay(TrajectoryStore, ths_r, tr['trace'], str(scratch))
                    rep.traces_validated += 1
                    steps = [(('A', 'B')[e['thread']], e['method'], e['line'], e['op']) for e in tr['trace'] if e['interesting'] or e['raised']]
                    ok = all(out['admitted'])
                    detail = f"schedule {steps} admits both threads in the model; real threads under the line scheduler: admitted={out['admitted']} results={out['results']}"
                    if ok:
                        kinds = 'race' if len(ca) == 1 else 'sequence'
                        raised = any(e['raised'] for e in tr['trace'])
                        rep.violation(oid, dict(scenario=kinds, needs_failed_call=raised, calls_A=len(ca)), detail, True,
                                      inputs=dict(scenario=name, schedule=steps))
                        rep.sample(dict(scenario=tag, result='sat', schedule=steps, replay=out['admitted']))
                        break
                    blocked.append(tr['sched'])
                else:
                    rep.inconclusive.append(f'{tag}: 5 model schedules did not reproduce on the real class (encoding/stub mismatch)')
                if any(v['obligation'] == 'C20.no_two_threads_admitted' and v['replayed'] for v in rep.violations) and not allow:
                    pass
    finally:
        shutil.rmtree(scratch, ignore_errors=True)
    rep.counters['states'] = states
    rep.counters['transitions'] = transitions
    return rep.finish('Bounded model checking of the thread-confinement guard: per-thread instruction lists are generated from the AST of '
                      'TrajectoryStore.__init__/close, two threads are interleaved at source-line granularity in a z3 transition system '
                      'unrolled to the total instruction count; "both threads admitted" must be unsat. states = unrolled thread-steps, '
                      'transitions = unrolled steps; traces validated = model schedules enforced on the real constructor with real threads.')
