"""C01 / C11 check driver (see vf/harness/emis.py)."""
from __future__ import annotations

import itertools
import json
import random
import time

from vf import common
from vf.harness import emis


def representative_configs():
    doms = emis.option_domains()
    default = dict(climb_descent_mode=0, co2_enabled=0, h2o_enabled=0, sox_enabled=0, nox_method=0, hc_method=0, co_method=0,
                   pmvol_method=0, pmnvol_method=1, apu_enabled=0, gse_enabled=0, lifecycle_enabled=0)
    # pmnvol default in the shipped config is MEEM (index 0); scope11 (1) runs its real kernel -> use both
    out = []
    for mode in (0, 1):
        base = dict(default, climb_descent_mode=mode)
        out.append(base)
        for k, dom in doms.items():
            if k == 'climb_descent_mode':
                continue
            for i in range(len(dom)):
                if i != base[k]:
                    out.append(dict(base, **{k: i}))
    return out


def make_jobs(which, tier):
    doms = emis.option_domains()
    quick = tier == 'quick'
    N = 2 if quick else 3
    dl = 500 if quick else 3000
    jobs = []
    # (1) Cartesian product of the options under the base environment: 54 case splits (mode x NOx x HC x CO methods
    #     fixed), the other options are solver variables.  quick: APU/GSE/life-cycle switches fixed on here (5184
    #     combinations) and swept separately in (1b); thorough: the full 41472-combination product.
    split = ['climb_descent_mode', 'nox_method', 'hc_method', 'co_method']
    for combo in itertools.product(*[range(len(doms[k])) for k in split]):
        fixed = dict(zip(split, combo))
        if quick:
            fixed.update(apu_enabled=0, gse_enabled=0, lifecycle_enabled=0)
        jobs.append(dict(kind='product', fixed=fixed, N=N, which=which, env=None, deadline_s=dl))
    reps = representative_configs()
    if quick:
        # (1b) all 8 combinations of the APU/GSE/life-cycle switches under every representative configuration
        for cfg in reps:
            fixed = {k: v for k, v in cfg.items() if k not in ('apu_enabled', 'gse_enabled', 'lifecycle_enabled')}
            jobs.append(dict(kind='switches', fixed=fixed, N=N, which=which, env=None, deadline_s=dl))
    # (2) each environment dimension symbolic, one at a time, under representative configurations
    dims = [('aircraft_class', 'sym'), ('apu', 'sym'), ('lifecycle', 'sym'), ('windows', 'sym'), ('cats', 'sym')]
    for cfg in reps:
        for d, v in dims:
            if quick and d == 'windows' and cfg['climb_descent_mode'] == 0:
                continue        # windows are not read in trajectory mode (thorough confirms)
            if quick and d == 'cats' and not cats_relevant(cfg):
                continue
            jobs.append(dict(kind='env:' + d, fixed=cfg, N=N, which=which, env={d: v}, deadline_s=dl))
    if not quick:
        # (3) pairs of environment dimensions under the two default configurations
        for cfg in reps[:1] + [c for c in reps if c['climb_descent_mode'] == 1][:1]:
            for (d1, v1), (d2, v2) in itertools.combinations(dims, 2):
                # window sizes x thrust categories multiply the paths per point: that pair runs on 2 points
                n_pair = 2 if {d1, d2} == {'windows', 'cats'} else N
                jobs.append(dict(kind=f'env:{d1}+{d2}', fixed=cfg, N=n_pair, which=which, env={d1: v1, d2: v2}, deadline_s=dl))
    return jobs, N


def cats_relevant(cfg):
    """quick tier: thrust categories only select per-point constants in the NOx speciation, PMvol and SCOPE11 paths;
    sweep them under the default configurations and the configurations that vary those methods."""
    d = representative_configs()
    base = d[0] if cfg['climb_descent_mode'] == 0 else [c for c in d if c['climb_descent_mode'] == 1][0]
    diff = [k for k in cfg if cfg[k] != base[k]]
    return not diff or diff[0] in ('nox_method', 'pmvol_method', 'pmnvol_method')


def main(which):
    tier = common.tier()
    rep = common.Report(which, 'other', 'proxy symbolic execution of the real compute_emissions + z3 (QF_NRA) per-path obligations')
    jobs, N = make_jobs(which, tier)
    rnd = random.Random(common.seed())
    rnd.shuffle(jobs)
    # longest first is better for load balance; product jobs are the heavy ones
    jobs.sort(key=lambda j: 0 if j['kind'] == 'product' else 1)
    t0 = time.time()
    results = common.pmap(emis.run_job, jobs)
    m = emis._mods()
    fns = [m['E'].compute_emissions, m['E'].sum_total_emissions, m['E'].get_lifecycle_emissions, m['T'].get_trajectory_emissions,
           m['T'].compute_EI_NOx, m['T']._calculate_EI_PMvol, m['T']._calculate_EI_PMnvol, m['T']._trajectory_slice,
           m['T']._thrust_percentages_from_categories, m['L'].get_LTO_emissions, m['L']._lto_nox, m['L']._lto_pmvol,
           m['L']._lto_pmnvol, m['AP'].get_APU_emissions, m['G'].get_GSE_emissions, m['G']._gse_nominal_profile,
           m['U'].constant_species_values, m['U'].get_thrust_cat_cruise, m['U'].scope11_profile, m['PV'].EI_PMvol_FuelFlow,
           m['PV'].EI_PMvol_FOA3, m['PT'].ThrustModeValues, m['PT'].ThrustModeArray]
    from AEIC.emissions.ei.sox import EI_SOx
    from AEIC.emissions.ei.nox import NOx_speciation
    from AEIC.emissions.ei.pmnvol import calculate_PMnvolEI_scope11
    rep.functions = common.fn_fingerprint(*fns, EI_SOx, NOx_speciation, calculate_PMnvolEI_scope11) + \
        common.fn_fingerprint(*emis._bind_real_properties())
    rep.bounds = dict(trajectory_points=N, option_product=('product of 9 options (5184 combinations) with the APU/GSE/life-cycle switches on, plus all 8 switch combinations under %d representative configurations' % len(representative_configs())) if tier == 'quick' else 'full Cartesian product of the 12 documented options (41472 combinations) under the base environment',
                      environment='aircraft class / APU presence and running-ness / fuel life-cycle data presence / climb-descent window sizes / thrust categories of the points: each made symbolic one at a time under %d representative configurations%s' % (len(representative_configs()), '' if tier == 'quick' else ', and in pairs under the two default configurations'),
                      jobs=len(jobs))
    rep.assumptions = [
        'exact real arithmetic (floats as reals); equalities asserted with relative tolerance 1e-9',
        'fuel_mass non-increasing and >= 0; fuel_flow >= 0; LTO fuel flows > 0, LTO EIs >= 0; fuel EI_CO2, EI_H2O in [1,5000], energy in [1,200] MJ/kg, sulfur ppm in [0,5000], sulfate yield in [0,1]',
        'APU indices within 10x the maxima of APU_data.toml (keeps the APU CO2 mass balance positive)',
        'EDB smoke-number / nvPM data concrete (SCOPE11 and MEEM values are C12\'s subject)',
    ]
    rep.stubs = ['EI_HCCO -> fresh non-negative array', 'BFFM2_EINOx -> fresh non-negative NOx, NO/NO2/HONO = NOx x real NOx_speciation() fractions of the point\'s thrust category',
                 'AtmosphericState -> fresh T,P,Mach in physical ranges', 'get_SLS_equivalent_fuel_flow -> fresh non-negative array',
                 'PMnvol_MEEM -> three fresh non-negative arrays', 'config -> stub whose 12 options are solver variables; derived properties are the real EmissionsConfig property functions',
                 'get_thrust_cat_cruise -> fixed category pattern covering idle/approach/climb unless the "cats" environment dimension is symbolic (then the real function runs)']
    rep.outside = ['float rounding of long sums', f'trajectories longer than {N} points', 'values of the transcendental EI kernels (C12)',
                   'interactions of two or more environment dimensions outside the representative configurations']
    outcomes = {}
    n_err = 0
    cands = []
    for (status, out), job in zip(results, jobs):
        if status != 'ok':
            n_err += 1
            rep.inconclusive.append(f"job {job['kind']} {job['fixed']} failed: {out[:400]}")
            continue
        rep.merge_stats(out['stats'])
        for oid, d in out['obligations'].items():
            for r, n in d.items():
                for _ in range(n):
                    rep.obl(oid, r)
        for k, n in out['outcomes'].items():
            outcomes[k] = outcomes.get(k, 0) + n
        rep.count('distinct_from_jobs', out['distinct'])
        if out['truncated']:
            rep.inconclusive.append(f"job {job['kind']} {job['fixed']} hit its deadline")
        for u in out['unknown'][:3]:
            rep.inconclusive.append('solver returned unknown: ' + u)
        for s in out['samples'][:1]:
            rep.sample(dict(job=job['kind'], **s))
        cands += out['violations']
        for cc in out.get('concolic', []):
            rep.validation.append(cc)
    rep.distinct = set(range(rep.counters.get('distinct_from_jobs', 0)))
    rep.extra['outcomes'] = outcomes
    # --- replay candidates (deduplicated by obligation + failing config family)
    seen = {}
    for v in cands:
        key = (v['obligation'], v.get('exc', '')[:60] if 'exc' in v else v.get('detail', '')[:60])
        seen.setdefault(key, []).append(v)
    for key, vs in seen.items():
        v = vs[0]
        ok, detail = emis.replay(v, which)
        tags = family_tags(which, vs)
        d = f"{key[1]} :: config={json.dumps(v['config'])} :: replay: {detail}"
        if which == 'C11' and ok:
            d += ' :: public API: ' + emis.public_api_replay(v['config'])
        rep.violation(v['obligation'], tags, d, ok, inputs=dict(values=v['values'], fixed=v['fixed'], N=v['N'], env=v.get('env'), config=v['config']))
    rep.extra['candidate_counterexamples'] = len(cands)
    # --- vacuity twin + concolic translation validation
    twin = emis.vacuity_and_concolic(which, N)
    rep.vacuity_twin('returned path: assert False must be sat and its model must replay as a returning run', twin['ok'])
    rep.validation.append(twin)
    rep.traces_validated = twin.get('replayed', 0)
    return rep.finish(
        f"Bounded symbolic verification of {which}: the real compute_emissions and everything below it is executed on symbolic "
        f"trajectories of {N} points with symbolic LTO/APU/fuel data under a symbolic configuration; every explored path's "
        f"obligations are discharged by z3 over exact reals (unsat = holds for all inputs on that path). Counterexamples are replayed on "
        f"the real code with real numpy before being reported.")


def family_tags(which, vs):
    """tags describing the family of configurations a counterexample stands for: options whose value is the same
    in every counterexample of the family."""
    tags = {}
    keys = set.intersection(*[set(v['config']) for v in vs])
    for k in sorted(keys):
        vals = {v['config'][k] for v in vs}
        if len(vals) == 1:
            tags[k] = vals.pop()
    exc = vs[0].get('exc')
    if exc:
        tags['exception'] = exc.split(':')[0]
    return tags
