"""Shared runner pieces: obligation bookkeeping, known findings, evidence, exit codes."""
from __future__ import annotations

import hashlib
import inspect
import json
import multiprocessing as mp
import os
import sys
import time
import traceback
from pathlib import Path

VERIF = Path(__file__).resolve().parents[1]
# VERIF_OUT redirects evidence and replay files (used when a check is pointed at a scratch tree through PYTHONPATH, so
# that the evidence of /repo is not overwritten); registered commands never set it
_OUT = Path(os.environ['VERIF_OUT']) if os.environ.get('VERIF_OUT') else VERIF
EVIDENCE = _OUT / 'evidence'
REPLAYS = _OUT / 'replays'
KNOWN = VERIF / 'known_findings.json'

EXIT_OK, EXIT_VIOLATION, EXIT_INCONCLUSIVE = 0, 1, 2


def tier():
    return os.environ.get('VERIF_TIER', 'quick')


def seed():
    try:
        return int(os.environ.get('VERIF_SEED', '0'))
    except ValueError:
        return 0


def fn_fingerprint(*fns):
    """qualified name + sha1 of the source the run actually executed."""
    out = []
    for f in fns:
        try:
            g = getattr(f, '__wrapped__', f)
            g = getattr(g, 'func', g)
            g = getattr(g, 'fget', g) or g
            src = inspect.getsource(g)
            mod = getattr(g, '__module__', '?')
            out.append(f"{mod}.{getattr(g, '__qualname__', getattr(g, '__name__', '?'))}@{hashlib.sha1(src.encode()).hexdigest()[:10]}")
        except Exception as e:  # noqa
            out.append(f'{f!r}@unavailable')
    return out


class Report:
    """Collects obligations / violations of one check run and writes evidence."""

    def __init__(self, pid, level, technique):
        self.pid = pid
        self.level = level
        self.technique = technique
        self.t0 = time.time()
        self.obligations = {}      # obligation id -> dict(unsat=, sat=, unknown=)
        self.violations = []       # dict(obligation, tags, detail, replayed, replay_path)
        self.inconclusive = []     # strings
        self.samples = []
        self.functions = []
        self.bounds = {}
        self.assumptions = []
        self.stubs = []
        self.outside = []
        self.stats = {}
        self.counters = {}
        self.vacuity = []          # (name, ok)
        self.validation = []       # translator validation entries
        self.extra = {}
        self.distinct = set()
        self.traces_validated = 0

    # --- bookkeeping
    def count(self, key, n=1):
        self.counters[key] = self.counters.get(key, 0) + n

    def obl(self, oid, result):
        d = self.obligations.setdefault(oid, dict(unsat=0, sat=0, unknown=0))
        d[result] += 1

    def merge_stats(self, st):
        for k, v in st.items():
            if isinstance(v, (int, float)):
                self.stats[k] = self.stats.get(k, 0) + v

    def sample(self, s, limit=12):
        if len(self.samples) < limit:
            self.samples.append(s)

    def violation(self, obligation, tags, detail, replayed, inputs=None):
        """A replay-confirmed counterexample (replayed must be True to count)."""
        v = dict(obligation=obligation, tags=tags, detail=detail, replayed=bool(replayed), inputs=inputs)
        self.violations.append(v)
        return v

    def vacuity_twin(self, name, ok):
        self.vacuity.append((name, bool(ok)))
        if not ok:
            self.inconclusive.append(f'vacuity twin failed: {name}')

    # --- finish
    def finish(self, explanation):
        known = load_known()
        new, known_hits = [], []
        seen = set()
        for v in self.violations:
            if not v['replayed']:
                self.inconclusive.append(f"counterexample of {v['obligation']} did not replay: {v['detail']}")
                continue
            k = match_known(known, self.pid, v)
            if k is not None:
                key = k['id']
                if key not in seen:
                    seen.add(key)
                    known_hits.append((k, v))
            else:
                new.append(v)
        for k, v in known_hits:
            print(f"KNOWN-FINDING: property={self.pid} {k['id']}: {k['what']}")
        REPLAYS.joinpath(self.pid).mkdir(parents=True, exist_ok=True)
        printed = set()
        for v in new:
            h = hashlib.sha1(json.dumps([v['obligation'], v['tags']], sort_keys=True, default=str).encode()).hexdigest()[:12]
            path = REPLAYS / self.pid / f'{h}.json'
            path.write_text(json.dumps(v, indent=1, default=str))
            v['replay_path'] = str(path)
            if h not in printed:
                printed.add(h)
                print(f"VIOLATION property={self.pid} replay={path}")
                print(f"  obligation={v['obligation']} tags={json.dumps(v['tags'], default=str)} :: {v['detail']}")
        for s in self.inconclusive[:20]:
            print(f'INCONCLUSIVE property={self.pid} {s}')
        n_obl = sum(sum(d.values()) for d in self.obligations.values())
        n_unsat = sum(d['unsat'] for d in self.obligations.values())
        cov = dict(
            explanation=explanation,
            technique=self.technique,
            functions_encoded=self.functions,
            bounds=self.bounds,
            stubs=self.stubs,
            outside_the_claim=self.outside,
            obligations=n_obl,
            discharged=n_unsat,
            obligations_by_id=self.obligations,
            solver=dict(self.stats),
            counters=self.counters,
            vacuity_twins=[dict(name=n, sat_and_replayed=ok) for n, ok in self.vacuity],
            translator_validation=self.validation,
            evaluations=max(1, int(self.stats.get('paths', 0)) + int(self.counters.get('queries', 0))),
            distinct_nontrivial=max(len(self.distinct), 0),
            rule='one evaluation = one explored symbolic path (or one direct solver query); distinct = distinct (obligation id, path shape) pairs whose path condition is satisfiable',
            samples=self.samples or ['(none)'],
            known_findings_hit=[k['id'] for k, _ in known_hits],
            exhaustive=False,
        )
        if self.level == 'model_checking':
            cov.update(states=max(1, int(self.counters.get('states', self.stats.get('paths', 0)))),
                       transitions=max(1, int(self.counters.get('transitions', self.stats.get('paths', 0)))),
                       traces_validated_against_impl=int(self.traces_validated))
        cov.update(self.extra)
        ev = dict(property_id=self.pid, tier=tier(), seed=seed(), level=self.level, coverage=cov,
                  assumptions=self.assumptions, wall_s=round(time.time() - self.t0, 2),
                  violations=len(new))
        EVIDENCE.mkdir(exist_ok=True)
        (EVIDENCE / f'{self.pid}.json').write_text(json.dumps(ev, indent=1, default=str))
        if new:
            return EXIT_VIOLATION
        if self.inconclusive:
            return EXIT_INCONCLUSIVE
        return EXIT_OK


def load_known():
    if KNOWN.exists():
        return json.loads(KNOWN.read_text())
    return []


def match_known(known, pid, v):
    for k in known:
        if k.get('property') != pid or k.get('status', 'known') != 'known':
            continue
        if k.get('obligation') != v['obligation']:
            continue
        if all(str(v['tags'].get(a)) == str(b) for a, b in k.get('match', {}).items()):
            return k
    return None


# ---------------------------------------------------------------------------
# parallel map over independent jobs (fork; z3 objects never cross processes)


def _job_runner(args):
    fn, job = args
    try:
        return ('ok', fn(job))
    except BaseException as e:  # noqa
        return ('err', f'{type(e).__name__}: {e}\n{traceback.format_exc()}')


def pmap(fn, jobs, procs=None):
    jobs = list(jobs)
    procs = min(procs or int(os.environ.get('VERIF_PROCS', '16')), max(1, len(jobs)))
    if procs <= 1 or len(jobs) <= 1:
        return [_job_runner((fn, j)) for j in jobs]
    ctx = mp.get_context('fork')
    with ctx.Pool(procs) as pool:
        return pool.map(_job_runner, [(fn, j) for j in jobs], chunksize=1)


def scratch_dir(tag):
    import tempfile
    base = os.environ.get('TMPDIR', '/tmp')
    return Path(tempfile.mkdtemp(prefix=f'aeic-verif-{tag}-', dir=base))
