"""C13 row filter and field parsing, decided by CrossHair (symbolic strings/ints over z3) on the real
CSVEntry.is_row_valid / CSVEntry.from_csv_row.  Each function below is a contract whose postcondition CrossHair tries
to refute; the *_twin functions are reachability witnesses that must be refuted."""
from __future__ import annotations

from AEIC.missions.oag import CSVEntry

DOCUMENTED_NON_AIRCRAFT = ('BUS', 'HOV', 'LCH', 'LMO', 'RFS', 'TRN')


def _row(**kw):
    base = dict(carrier='XX', fltno='12', depapt='LAX', depctry='US', arrapt='JFK', arrctry='US', deptim='2230', arrtim='0645', arrday='1', days='1234567', distance='2475', inpacft='738',
                service='J', seats='160', efffrom='20190308', effto='20190311', stops='0', longest='L', operating='', genacft='738')
    base.update(kw)
    return base


def filter_only_documented_reasons(carrier: str, service: str, stops: int, operating: str, genacft: str) -> bool:
    """
    pre: 0 <= stops <= 12 and len(carrier) <= 2 and len(service) <= 1 and len(operating) <= 1 and len(genacft) <= 3
    post: _
    """
    got = CSVEntry.is_row_valid(_row(carrier=carrier, service=service, stops=str(stops), operating=operating, genacft=genacft))
    want = not (carrier == chr(26) or service == 'V' or service == 'U' or stops != 0 or operating == 'N' or genacft in DOCUMENTED_NON_AIRCRAFT)
    return got == want


def filter_twin(carrier: str, service: str, stops: int, operating: str, genacft: str) -> bool:
    """
    pre: 0 <= stops <= 12 and len(carrier) <= 2 and len(service) <= 1 and len(operating) <= 1 and len(genacft) <= 3
    post: _
    """
    return not CSVEntry.is_row_valid(_row(carrier=carrier, service=service, stops=str(stops), operating=operating, genacft=genacft))


def times_parse(dh: int, dm: int, ah: int, am: int) -> bool:
    """
    pre: 0 <= dh <= 23 and 0 <= ah <= 23 and 0 <= dm <= 59 and 0 <= am <= 59
    post: _
    """
    e = CSVEntry.from_csv_row(_row(deptim=str(dh * 100 + dm).rjust(4, '0'), arrtim=str(ah * 100 + am).rjust(4, '0')), 3)
    return e is not None and e.deptim.hour == dh and e.deptim.minute == dm and e.arrtim.hour == ah and e.arrtim.minute == am and e.line == 3


def arrday_parse(code: str) -> bool:
    """
    pre: code in ('P', ' ', '', '1', '2')
    post: _
    """
    e = CSVEntry.from_csv_row(_row(arrday=code), 3)
    want = {'P': -1, ' ': 0, '': 0, '1': 1, '2': 2}[code]
    return e is not None and e.arrday == want


def dates_parse(y: int, m: int, d: int, open_from: bool, open_to: bool) -> bool:
    """
    pre: 2000 <= y <= 2030 and 1 <= m <= 12 and 1 <= d <= 28
    post: _
    """
    t = str(y * 10000 + m * 100 + d)
    e = CSVEntry.from_csv_row(_row(efffrom='00000000' if open_from else t, effto='99999999' if open_to else t), 3)
    if e is None:
        return False
    okf = e.efffrom is None if open_from else (e.efffrom is not None and (e.efffrom.year, e.efffrom.month, e.efffrom.day) == (y, m, d))
    okt = e.effto is None if open_to else (e.effto is not None and (e.effto.year, e.effto.month, e.effto.day) == (y, m, d))
    return okf and okt


def _weekdays(days):
    e = CSVEntry.from_csv_row(_row(days=days), 3)
    return e is not None and {dw.value for dw in e.days} == {k for k in range(1, 8) if str(k) in days}


def weekdays_parse_2(days: str) -> bool:
    """
    pre: len(days) <= 2 and all(c in ' 1234567' for c in days)
    post: _
    """
    return _weekdays(days)


def weekdays_parse_3(days: str) -> bool:
    """
    pre: len(days) <= 3 and all(c in ' 1234567' for c in days)
    post: _
    """
    return _weekdays(days)


def parse_twin(dh: int, dm: int) -> bool:
    """
    pre: 0 <= dh <= 23 and 0 <= dm <= 59
    post: _
    """
    e = CSVEntry.from_csv_row(_row(deptim=str(dh * 100 + dm).rjust(4, '0')), 3)
    return e is None or e.deptim.hour != 7
