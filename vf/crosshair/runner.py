"""Runs CrossHair contracts (one subprocess per contract, in parallel) and classifies the verdicts.

verdicts: 'unsat'  = "Confirmed over all paths" (every path decided by z3, no counterexample)
          'sat'    = counterexample printed; replayed by calling the function concretely
          'unknown'= not confirmed / unable to meet precondition / timeout"""
from __future__ import annotations

import importlib
import os
import re
import subprocess
import sys
import time
from concurrent.futures import ThreadPoolExecutor
from pathlib import Path

ROOT = Path(__file__).resolve().parents[2]


def _line_of(path, fn):
    for i, l in enumerate(open(path).read().splitlines(), 1):
        if l.startswith(f'def {fn}('):
            return i + 1
    raise KeyError(fn)


def run_one(module, fn, timeout_s):
    path = ROOT / (module.replace('.', '/') + '.py')
    env = dict(os.environ, PYTHONPATH=f"{ROOT}:{os.environ.get('PYTHONPATH', '')}")
    t0 = time.time()
    try:
        p = subprocess.run([sys.executable, '-m', 'crosshair', 'check', '--report_all', '--per_condition_timeout', str(timeout_s), f'{path}:{_line_of(path, fn)}'],
                           capture_output=True, text=True, timeout=timeout_s * 2 + 60, env=env, cwd=str(ROOT))
        out = (p.stdout + p.stderr).strip()
    except subprocess.TimeoutExpired:
        out = 'timeout'
    dt = time.time() - t0
    # the call text ends before CrossHair's own trailer "(which returns …)" / "(which raises …)"
    m = re.search(r'error: (.*?) when calling (\w+\(.*?\))(?: \(which (?:returns|raises) .*\))?\s*$', out, flags=re.M)
    if 'Confirmed over all paths' in out:
        return dict(fn=fn, verdict='unsat', wall_s=dt, out=out[-300:])
    if m:
        return dict(fn=fn, verdict='sat', call=m.group(2), what=m.group(1), wall_s=dt, out=out[-400:])
    return dict(fn=fn, verdict='unknown', wall_s=dt, out=out[-400:])


def replay_call(module, call):
    """evaluates the printed counterexample call on the real code; reproduced if the postcondition is false or it raises"""
    mod = importlib.import_module(module)
    try:
        code = compile(call, '<crosshair counterexample>', 'eval')
    except SyntaxError as e:
        return False, f'counterexample text {call!r} is not a call that can be evaluated ({e.msg})'
    try:
        r = eval(code, dict(vars(mod)))      # noqa: S307  (text produced by our own CrossHair run)
    except NameError as e:
        return False, f'{call}: {e}'
    except Exception as e:  # noqa
        return True, f'{call} raises {type(e).__name__}: {e}'
    return (r is False), f'{call} returns {r!r}'


def run_all(module, specs, procs=8):
    """specs: list of (function name, timeout seconds)"""
    with ThreadPoolExecutor(max_workers=procs) as tp:
        return list(tp.map(lambda s_: run_one(module, s_[0], s_[1]), specs))
