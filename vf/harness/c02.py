"""C02 (and the LegacyBuilder part of C17): real LegacyBuilder.fly + Container + Trajectory + GroundTrack on a symbolic
mission with a nondeterministic performance model, over the abstract geodesic oracle of C15."""
from __future__ import annotations

import time

import numpy as np
import z3

import vf.symex as sx
from vf.symex import choose, cur, obj, sym, symnp
from vf.harness.c15 import Oracle

FT = 0.3048


def mods():
    import AEIC.storage.container as CT
    import AEIC.storage.field_sets as FS
    import AEIC.trajectories.builders.base as BB
    import AEIC.trajectories.builders.legacy as LG
    import AEIC.trajectories.ground_track as GT
    import AEIC.trajectories.trajectory as TR
    return dict(CT=CT, FS=FS, BB=BB, LG=LG, GT=GT, TR=TR)


class Table:
    pass


class EnvelopeError(ValueError):
    pass


def _rg(default, comfortable):
    """input range: the documented contract, or (regime 'comfortable') a range in which no refusal or corner case can
    occur whatever the other inputs are, so that a counterexample found in the sign abstraction replays on the real code"""
    return comfortable if cur().notes.get('regime') == 'comfortable' else default


class PM:
    """nondeterministic performance model: any answers within the documented contract, or an out-of-envelope refusal"""

    def __init__(self, tag=''):
        self.tag = tag
        self.maximum_altitude = sym(f'{tag}ceiling', *_rg((3000.0, 20000.0), (9000.0, 13000.0)))
        self.maximum_payload = sym(f'{tag}max_payload', *_rg((0.0, 1e5), (1e4, 2e4)))
        self.empty_mass = sym(f'{tag}empty_mass', *_rg((1.0, 3e5), (3e4, 5e4)))
        self.maximum_mass = sym(f'{tag}max_mass', *_rg((1.0, 6e5), (5e5, 6e5)))
        cur().assume(self.maximum_mass > self.empty_mass)
        self.performance_table = Table()
        self.performance_table.tas = [sym(f'{tag}table_tas_min', 1.0, 400.0)]
        self.performance_table.rocd = [sym(f'{tag}table_rocd_max', 0.0, 50.0)]
        self.calls = []
        self.may_fail = True
        self.fail_only_at = None

    def evaluate(self, state, rules):
        from AEIC.performance.types import Performance, SimpleFlightRules
        k = len(self.calls)
        if self.may_fail and (self.fail_only_at is None or k in self.fail_only_at) and choose(f'{self.tag}envelope_refusal_at_call_{k}', [False, True]):
            e = EnvelopeError('One of the requested xi is out of bounds in dimension 0')
            cur().notes.setdefault('injected', []).append(e)
            raise e
        tas = sym(f'{self.tag}tas{k}', *_rg((1.0, 400.0), (100.0, 250.0)))
        ff = sym(f'{self.tag}ff{k}', *_rg((0.0, 50.0), (0.5, 2.0)), lo_strict=True)
        if rules == SimpleFlightRules.CLIMB:
            roc = sym(f'{self.tag}roc{k}', *_rg((0.0, 100.0), (5.0, 30.0)), lo_strict=True)
            cur().assume(roc < tas)
        elif rules == SimpleFlightRules.DESCEND:
            roc = sym(f'{self.tag}roc{k}', *_rg((-100.0, 0.0), (-30.0, -5.0)), hi_strict=True)
            cur().assume(-roc < tas)
        else:
            roc = 0.0
        self.calls.append((state, rules))
        return Performance(true_airspeed=tas, rate_of_climb=roc, fuel_flow=ff)


class Mis:
    """a mission with every public attribute of AEIC.missions.Mission; `like` = a mission between the same airports
    with the same aircraft type (same codes, hence same positions) but its own load factor"""

    def __init__(self, tag='', like=None):
        from AEIC.types import Position
        if like is None:
            self.origin, self.destination, self.aircraft_type = f'{tag}ORG', f'{tag}DST', f'{tag}TYPE'
            self.origin_position = Position(sym(f'{tag}o_lon', -180.0, 180.0), sym(f'{tag}o_lat', -90.0, 90.0), sym(f'{tag}o_alt', *_rg((0.0, 6000.0), (0.0, 500.0))))
            self.destination_position = Position(sym(f'{tag}d_lon', -180.0, 180.0), sym(f'{tag}d_lat', -90.0, 90.0), sym(f'{tag}d_alt', *_rg((0.0, 6000.0), (0.0, 500.0))))
        else:
            self.origin, self.destination, self.aircraft_type = like.origin, like.destination, like.aircraft_type
            self.origin_position, self.destination_position = like.origin_position, like.destination_position
        self.load_factor = sym(f'{tag}load_factor', 0.0, 1.0)
        self.label = 'sym'
        self.flight_id = None
        self.departure = None
        self.arrival = None


class StubTrack:
    """recording stand-in for GroundTrack (quick tier): every step/location returns a fresh position and logs its
    arguments; negative arguments are refused as documented.  GroundTrack itself is C15's subject; the thorough tier
    and one quick job run the real class over the geodesic oracle."""
    from AEIC.trajectories.ground_track import GroundTrack as _GT
    Exception = _GT.Exception
    Point = _GT.Point

    def __init__(self, start, end):
        self.start, self.end = start, end
        self.tag = cur().notes.get('track_tag', '')
        self.total_distance = self._sym(f'track{self.tag}_total_distance', *_rg((0.0, 2.1e7), (3e6, 5e6)))
        self.az0 = self._sym(f'track{self.tag}_az0', 0.0, 360.0, hi_strict=True)
        self.calls = []

    @staticmethod
    def _sym(name, lo, hi, **k):
        # the same flight (tag) sees the same track answers when it is flown again on another builder
        reg = cur().notes.setdefault('track_syms', {})
        if name not in reg:
            reg[name] = sym(name, lo, hi, **k)
        return reg[name]

    @classmethod
    def great_circle(cls, start_loc, end_loc, allow_overstep=False):
        t = cls(start_loc, end_loc)
        cur().notes['stub_track'] = t
        return t

    def __getitem__(self, i):
        assert i == 0
        return self.Point(self.start, self.az0)

    def _fresh(self, kind, a, b):
        from AEIC.types import Location
        k = len(self.calls)
        lon, lat, az = self._sym(f'trk{self.tag}_{k}_lon', -180.0, 180.0), self._sym(f'trk{self.tag}_{k}_lat', -90.0, 90.0), self._sym(f'trk{self.tag}_{k}_az', 0.0, 360.0, hi_strict=True)
        self.calls.append(dict(kind=kind, args=(a, b), res=(lon, lat, az)))
        return self.Point(Location(lon, lat), az)

    def step(self, from_distance, distance_step):
        if from_distance < 0 or distance_step < 0:
            raise self.Exception('distances must be non-negative')
        return self._fresh('step', from_distance, distance_step)

    def location(self, distance):
        if distance < 0:
            raise self.Exception('distance outside ground track range')
        return self._fresh('location', distance, 0.0)


def patches(symbolic, caps, oracle, track='real'):
    m = mods()
    FS, CT, LG, GT, TR = m['FS'], m['CT'], m['LG'], m['GT'], m['TR']
    tr = [(CT.Container, 'STARTING_CAPACITY', caps[0]), (CT.Container, 'CAPACITY_EXPANSION', caps[1])]
    if symbolic:
        orig_cast = FS.FieldMetadata._cast

        def _cast(self, v, name):
            if sx.is_sym(v) or (isinstance(v, np.ndarray) and v.dtype == object):
                return v
            return orig_cast(self, v, name)
        tr += [(FS, 'np', symnp), (LG, 'np', symnp), (TR, 'np', symnp), (FS.FieldMetadata, '_cast', _cast), (GT, 'GEOD', oracle)]
        if track == 'stub':
            tr += [(LG, 'GroundTrack', StubTrack)]
    return sx.patched(*tr)


def make_builder(npts, iterate=False, max_iters=3, tol=None):
    import AEIC.trajectories.builders as tb
    ncl, ncr, nde = npts
    lo = tb.LegacyOptions(frac_step_clm=1.0 / (ncl + 0.5), frac_step_crz=1.0 / (ncr + 0.5), frac_step_des=1.0 / (nde - 0.5))
    # int(1/frac) must give exactly the requested counts
    assert int(1 / lo.frac_step_clm) == ncl and int(1 / lo.frac_step_crz) == ncr and int(1 / lo.frac_step_des + 1) == nde, (npts, lo)
    opts = tb.Options(iterate_mass=iterate, max_mass_iters=max_iters, mass_iter_reltol=tol if tol is not None else 1e-2)
    return tb.LegacyBuilder(options=opts, legacy_options=lo)


def fly_path(npts, caps, user_mass=False, may_fail=True, resample=True, track='real', narrow=False):
    def fn(ex):
        orc = Oracle()
        out = dict(orc=orc, npts=npts, caps=caps)
        with patches(not ex.concrete, caps, orc, track):
            b = make_builder(npts)
            pm, mis = PM(), Mis()
            pm.may_fail = may_fail
            if narrow:
                # ordinary altitude schedule only (the airport-elevation corner cases are covered by the other jobs)
                ex.assume(mis.origin_position.altitude + 3000.0 * FT < pm.maximum_altitude - 7000.0 * FT)
                ex.assume(mis.destination_position.altitude + 3000.0 * FT < pm.maximum_altitude - 7000.0 * FT)
            out.update(pm=pm, mis=mis, builder=b, before=set(b.__dict__))
            um = sym('user_mass', 1.0, 6e5) if user_mass else None
            out['user_mass'] = um
            try:
                t = b.fly(pm, mis, starting_mass=um)
                out['traj'], out['exc'] = t, None
            except Exception as e:
                out['traj'], out['exc'] = None, e
                import traceback
                out['tb'] = traceback.format_exc()
            out['after'] = set(b.__dict__)
            out['injected'] = list(ex.notes.get('injected', []))
            out['stub_track'] = ex.notes.get('stub_track')
            if out['traj'] is not None and resample:
                t = out['traj']
                was_purify = getattr(ex, 'purify', False)
                try:
                    ex.purify = False      # the interpolation arithmetic itself is kept exact (small terms)
                    ft = t.flight_time
                    out['resampled_own'] = t.interpolate_time(ft.copy() if hasattr(ft, 'copy') else ft)
                    n = len(t)
                    k = choose('resample_between', list(range(n - 1)))
                    if ex.concrete:
                        lam = None
                        tm = float(ex.value('resample_time', float(ft[k]), float(ft[k + 1])))
                        if not (float(ft[k]) <= tm <= float(ft[k + 1])):
                            tm = 0.5 * (float(ft[k]) + float(ft[k + 1]))
                        newt = np.array([tm], dtype=float)
                    else:
                        # a fresh time strictly between two neighbouring points (keeps the branch conditions linear)
                        tm = sym('resample_time')
                        ex.assume(tm > ft[k])
                        ex.assume(tm < ft[k + 1])
                        if not ex.feasible(z3.BoolVal(True)):
                            raise sx.PathAbort()
                        lam = None
                        newt = obj([tm])
                    out['resampled_mid'] = (k, lam, tm, t.interpolate_time(newt))
                except Exception as e:  # noqa
                    out['resample_exc'] = e
                finally:
                    ex.purify = was_purify
        return out
    return fn


POINT_FIELDS = ['fuel_flow', 'aircraft_mass', 'fuel_mass', 'ground_distance', 'altitude', 'flight_level', 'rate_of_climb', 'flight_time',
                'latitude', 'longitude', 'azimuth', 'heading', 'true_airspeed', 'ground_speed']


def _nonfinite(x):
    return isinstance(x, (float, np.floating)) and not np.isfinite(x)


def eq(a, b, tol=1e-6):
    if _nonfinite(a) or _nonfinite(b):
        return False
    if sx.is_sym(a) or sx.is_sym(b):
        return sx.SymBool(sx.lift(a) == sx.lift(b))
    if isinstance(a, float) and isinstance(b, float) and (np.isnan(a) or np.isnan(b)):
        return False
    return abs(float(a) - float(b)) <= 1e-7 + tol * (abs(float(a)) + abs(float(b)))


def le(a, b):
    if _nonfinite(a) or _nonfinite(b):
        return False
    if sx.is_sym(a) or sx.is_sym(b):
        return a <= b
    return float(a) <= float(b) + 1e-7 + 1e-9 * (abs(float(a)) + abs(float(b)))


def _same_term(a, b):
    if sx.is_sym(a) and sx.is_sym(b):
        return a.t.eq(b.t)
    if sx.is_sym(a) or sx.is_sym(b):
        return False
    try:
        return float(a) == float(b)
    except (TypeError, ValueError):
        return False


def finite(x):
    if sx.is_sym(x):
        return True
    try:
        return bool(np.isfinite(x))
    except TypeError:
        return False


def obligations(o, concrete=False):
    """yield (id, detail, value)"""
    from AEIC.trajectories.ground_track import GroundTrack
    t, exc = o['traj'], o['exc']
    mis, pm = o['mis'], o['pm']
    if exc is not None:
        documented = isinstance(exc, (ValueError, GroundTrack.Exception, RuntimeError))
        yield 'C02.rejection.documented_error_type', f'{type(exc).__name__}: {exc}', documented
        if o['injected']:
            yield 'C02.rejection.out_of_envelope_reason_surfaces', repr(exc), exc is o['injected'][-1]
        return
    yield 'C02.rejection.refused_model_answer_yields_no_trajectory', '', not o['injected']
    N = len(t)
    ncl, ncr, nde = o['npts']
    yield 'C02.shape.number_of_points', f'{N}', N == ncl + ncr + nde
    am, fm, gd, ft, alt = t.aircraft_mass, t.fuel_mass, t.ground_distance, t.flight_time, t.altitude
    for name in POINT_FIELDS:
        arr = getattr(t, name)
        yield 'C02.finite.all_values', name, len(arr) == N and all(finite(x) for x in arr)
    # masses
    yield 'C02.first_point.carries_starting_mass_and_fuel', '', sx.sym_and(eq(am[0], t.starting_mass), eq(fm[0], t.total_fuel_mass))
    for i in range(N - 1):
        yield 'C02.mass.aircraft_minus_fuel_constant', f'i={i}', eq(am[i] - fm[i], am[i + 1] - fm[i + 1])
        yield 'C02.mass.fuel_never_increases', f'i={i}', le(fm[i + 1], fm[i])
        yield 'C02.mass.aircraft_mass_never_increases', f'i={i}', le(am[i + 1], am[i])
        yield 'C02.time.never_decreases', f'i={i}', le(ft[i], ft[i + 1])
        yield 'C02.distance.never_decreases', f'i={i}', le(gd[i], gd[i + 1])
    yield 'C02.time.starts_at_zero', '', sx.sym_and(eq(ft[0], 0.0), eq(gd[0], 0.0))
    # altitude schedule
    ceiling = pm.maximum_altitude
    start_nominal = mis.origin_position.altitude + 3000.0 * FT
    high = start_nominal >= ceiling
    want_start = sx.ite(high, mis.origin_position.altitude, start_nominal) if isinstance(high, sx.SymBool) else (mis.origin_position.altitude if high else start_nominal)
    yield 'C02.altitude.starts_3000ft_above_origin_or_at_origin_elevation', '', eq(alt[0], want_start)
    end_nominal = mis.destination_position.altitude + 3000.0 * FT
    high2 = end_nominal >= ceiling
    want_end = sx.ite(high2, ceiling, end_nominal) if isinstance(high2, sx.SymBool) else (ceiling if high2 else end_nominal)
    yield 'C02.altitude.ends_3000ft_above_destination', '', eq(alt[N - 1], want_end)
    crz = alt[ncl]
    for i in range(N):
        yield 'C02.altitude.never_above_cruise_level_or_ceiling', f'i={i}', sx.sym_and(le(alt[i], crz), le(alt[i], ceiling))
    for i in range(ncl - 1):
        yield 'C02.altitude.never_decreases_in_climb', f'i={i}', le(alt[i], alt[i + 1])
    for i in range(ncl, ncl + ncr - 1):
        yield 'C02.altitude.constant_in_cruise', f'i={i}', eq(alt[i], alt[i + 1])
    for i in range(ncl + ncr, N - 1):
        yield 'C02.altitude.never_increases_in_descent', f'i={i}', le(alt[i + 1], alt[i])
    yield 'C02.altitude.climb_hands_over_to_cruise_level', '', sx.sym_and(eq(alt[ncl - 1], crz), eq(alt[ncl + ncr], crz))
    # phase hand-over: the first point of a phase is the last point of the previous phase
    for a_, b_ in ((ncl - 1, ncl), (ncl + ncr - 1, ncl + ncr)):
        yield 'C02.handover.next_phase_starts_at_last_point', f'{a_}->{b_}', sx.sym_and(eq(gd[a_], gd[b_]), eq(ft[a_], ft[b_]), eq(fm[a_], fm[b_]), eq(am[a_], am[b_]))
    # positions: on the origin-destination great circle at exactly the recorded ground distance
    if not concrete and o.get('stub_track') is not None:
        st = o['stub_track']
        o_lon, o_lat = mis.origin_position.longitude, mis.origin_position.latitude
        yield 'C02.route.great_circle_between_the_airports', '', sx.sym_and(eq(st.start.longitude, o_lon), eq(st.start.latitude, o_lat),
                                                                              eq(st.end.longitude, mis.destination_position.longitude), eq(st.end.latitude, mis.destination_position.latitude))
        yield 'C02.route.starts_at_origin', '', sx.sym_and(eq(t.longitude[0], o_lon), eq(t.latitude[0], o_lat))
        for i in range(1, N):
            alts = [sx.sym_and(eq(t.longitude[i], o_lon), eq(t.latitude[i], o_lat), eq(gd[i], 0.0))]
            for c in st.calls:
                alts.append(sx.sym_and(eq(t.longitude[i], c['res'][0]), eq(t.latitude[i], c['res'][1]), eq(c['args'][0] + c['args'][1], gd[i])))
            yield 'C02.route.position_is_great_circle_point_at_recorded_distance', f'i={i}', sx.sym_or(*alts)
    elif not concrete:
        orc = o['orc']
        fwd = [c for c in orc.calls if c['kind'] == 'fwd']
        inv0 = orc.calls[0]
        o_lon, o_lat = mis.origin_position.longitude, mis.origin_position.latitude
        yield 'C02.route.great_circle_between_the_airports', '', sx.sym_and(eq(inv0['args'][0], o_lon), eq(inv0['args'][1], o_lat),
                                                                              eq(inv0['args'][2], mis.destination_position.longitude), eq(inv0['args'][3], mis.destination_position.latitude))
        yield 'C02.route.starts_at_origin', '', sx.sym_and(eq(t.longitude[0], o_lon), eq(t.latitude[0], o_lat))
        for i in range(1, N):
            alts = [sx.sym_and(eq(t.longitude[i], o_lon), eq(t.latitude[i], o_lat), eq(gd[i], 0.0)),
                    sx.sym_and(eq(t.longitude[i], mis.destination_position.longitude), eq(t.latitude[i], mis.destination_position.latitude), eq(gd[i], inv0['res'][2]))]
            for c in fwd:
                alts.append(sx.sym_and(eq(t.longitude[i], c['res'][0]), eq(t.latitude[i], c['res'][1]), eq(c['args'][0], o_lon), eq(c['args'][1], o_lat),
                                       eq(c['args'][2], inv0['res'][0]), eq(c['args'][3], gd[i])))
            yield 'C02.route.position_is_great_circle_point_at_recorded_distance', f'i={i}', sx.sym_or(*alts)
    else:
        from pyproj import Geod
        G = Geod(ellps='WGS84')
        o_lon, o_lat = float(mis.origin_position.longitude), float(mis.origin_position.latitude)
        az0 = G.inv(o_lon, o_lat, float(mis.destination_position.longitude), float(mis.destination_position.latitude))[0]
        for i in range(N):
            if not (np.isfinite(gd[i]) and np.isfinite(t.longitude[i]) and np.isfinite(t.latitude[i])):
                yield 'C02.route.position_is_great_circle_point_at_recorded_distance', f'i={i}', False
                continue
            elon, elat, _ = G.fwd(o_lon, o_lat, az0, float(gd[i]))
            err = G.inv(elon, elat, float(t.longitude[i]), float(t.latitude[i]))[2]
            yield 'C02.route.position_is_great_circle_point_at_recorded_distance', f'i={i} err={err:.4f} m', err <= 1e-2
    # resampling
    if 'resample_exc' in o:
        yield 'C02.resample.no_error', repr(o['resample_exc']), False
    if 'resampled_own' in o:
        r = o['resampled_own']
        for name in POINT_FIELDS:
            src, got = getattr(t, name), getattr(r, name)
            yield 'C02.resample.own_time_points_give_back_the_values.length', name, len(got) == N
            if len(got) != N:
                continue
            for i in range(N):
                # where several points carry the same time stamp (phase hand-over duplicates) the value of any coincident
                # point is accepted.  The interpolation model selects its node by forking, so the result normally IS one
                # of the source terms: only those candidates need the time-equality proof.
                cands = [j for j in range(N) if _same_term(got[i], src[j])]
                if i in cands:
                    continue
                if not cands:
                    cands = list(range(N))
                alts = [sx.sym_and(eq(ft[j], ft[i]), eq(got[i], src[j])) for j in cands]
                yield 'C02.resample.own_time_points_give_back_the_values', f'{name}[{i}]', sx.sym_or(*alts)
        yield 'C02.resample.own_time_points_give_back_the_values', 'checked', True
    if 'resampled_mid' in o:
        k, lam, tm, r = o['resampled_mid']
        for name in ('fuel_mass', 'altitude', 'ground_distance'):
            src, got = getattr(t, name), getattr(r, name)
            yield 'C02.resample.intermediate_time.length', name, len(got) == 1
            if len(got) != 1:
                continue
            # linear interpolation between the neighbouring points (when they are distinct in time)
            distinct = ft[k] < ft[k + 1]
            if isinstance(distinct, sx.SymBool) or sx.is_sym(tm):
                # (got - f_k) * (t_{k+1} - t_k) == (t - t_k) * (f_{k+1} - f_k), written without division (exact terms)
                lhs = (sx.lift(got[0]) - sx.lift(src[k])) * (sx.lift(ft[k + 1]) - sx.lift(ft[k]))
                rhs = (sx.lift(tm) - sx.lift(ft[k])) * (sx.lift(src[k + 1]) - sx.lift(src[k]))
                yield 'C02.resample.intermediate_time_is_linear_interpolation', f'{name} between {k},{k + 1}', sx.SymBool(lhs == rhs)
            elif distinct:
                lin = src[k] + (tm - ft[k]) * (src[k + 1] - src[k]) / (ft[k + 1] - ft[k])
                yield 'C02.resample.intermediate_time_is_linear_interpolation', f'{name} between {k},{k + 1}', eq(got[0], lin, tol=1e-5)


def run_job(job):
    npts, caps = tuple(job['npts']), tuple(job['caps'])
    ex = sx.Explorer(purify=True, deadline=time.time() + job.get('deadline_s', 600), feas_timeout_ms=1500)
    out = dict(job=job, obligations={}, violations=[], samples=[], distinct=set(), unknown=[], outcomes={}, c17=dict(clean=0, dirty=[]))
    fn = fly_path(npts, caps, user_mass=job.get('user_mass', False), may_fail=job.get('may_fail', True), resample=job.get('resample', True), track=job.get('track', 'real'), narrow=job.get('narrow', False))
    t_start = time.time()
    for p in ex.explore(fn):
        if p.exc is not None:
            out['violations'].append(dict(obligation='harness', detail=f'{p.exc!r} {(p.tb or "")[-700:]}', values={}, tags={}))
            continue
        o = p.result
        kind = 'returned' if o['traj'] is not None else f"{type(o['exc']).__name__}: {str(o['exc'])[:50]}"
        out['outcomes'][kind] = out['outcomes'].get(kind, 0) + 1
        # C17 on the real LegacyBuilder: no per-flight state survives fly
        extra = o['after'] - o['before']
        if extra - {'current_mass'}:
            out['c17']['dirty'].append(sorted(extra))
        else:
            out['c17']['clean'] += 1
        groups = {}
        for oid, detail, val in obligations(o):
            groups.setdefault(oid, []).append((detail, val))
        for cond, what in p.defined:
            # divisions of the phase code feed the returned arrays; the mass residual of base._fly_iteration is only
            # used by the mass-iteration loop (C17) and is discarded here
            if o['traj'] is not None and 'legacy.py' in what:
                groups.setdefault('C02.finite.' + what.split(':')[0].replace(' ', '_'), []).append((what, sx.SymBool(cond)))
        for oid, items in groups.items():
            d = out['obligations'].setdefault(oid, dict(unsat=0, sat=0, unknown=0))
            conc_false = [det for det, v in items if not isinstance(v, sx.SymBool) and not v]
            symb = [(det, v) for det, v in items if isinstance(v, sx.SymBool)]
            if conc_false:
                r, m = ex.check(z3.BoolVal(True), pc=list(ex.pc), timeout_ms=job.get('obl_timeout_ms', 20000))
                if r == 'sat':
                    d['sat'] += 1
                    out['violations'].append(dict(obligation=oid, detail=str(conc_false[:3]), values={k: sx.mval(m, v) for k, v in p.inputs.items()}, tags=dict(outcome=kind)))
                    continue
            if not symb:
                d['unsat'] += 1
                out['distinct'].add((oid, kind))
                continue
            r, m = ex.prove_sliced(z3.And(*[v.t for _, v in symb]), pc=list(ex.pc), timeout_ms=job.get('obl_timeout_ms', 20000), defs=list(ex.defs))
            d[r] += 1
            if r == 'unsat':
                out['distinct'].add((oid, kind))
            elif r == 'sat':
                failing = [det for det, v in symb if not z3.is_true(m.eval(v.t, model_completion=True))]
                out['violations'].append(dict(obligation=oid, detail=str(failing[:4]), values={k: sx.mval(m, v) for k, v in p.inputs.items()}, tags=dict(outcome=kind)))
            else:
                out['unknown'].append(f'{oid}')
        if len(out['samples']) < 2:
            out['samples'].append(dict(outcome=kind, path_conditions=len(p.pc), model_calls=len(o['pm'].calls)))
    out['stats'] = ex.stats
    out['truncated'] = ex.truncated
    out['distinct'] = len(out['distinct'])
    out['wall_s'] = round(time.time() - t_start, 1)
    return out


def replay(job, v):
    npts, caps = tuple(job['npts']), tuple(job['caps'])
    fn = fly_path(npts, caps, user_mass=job.get('user_mass', False), may_fail=job.get('may_fail', True), resample=job.get('resample', True), track=job.get('track', 'real'), narrow=job.get('narrow', False))
    values = dict(v['values'])
    if job.get('track', 'real') == 'real' and values.get('inv0_dist') is not None and 0.0 < float(values['inv0_dist']) < 1.9e7:
        # the route length chosen by the solver for the geodesic oracle is realised with real airports on the equator
        # (WGS-84: one radian of longitude on the equator is the equatorial radius), so the replay runs on real pyproj
        import math
        values.update(o_lon=0.0, o_lat=0.0, d_lat=0.0, d_lon=math.degrees(float(values['inv0_dist']) / 6378137.0))
    run = sx.ConcreteRun(values)
    res, exc = run.run(fn)
    if exc is not None:
        return False, f'harness raised {exc!r}'
    bad = [(oid, det) for oid, det, val in obligations(res, concrete=True) if oid == v['obligation'] and not bool(val)]
    return bool(bad), f'real LegacyBuilder/Container/GroundTrack (real numpy, real pyproj) with the model\'s performance answers: failing {bad[:3]}'


def public_api_replay(npts, caps_default=True):
    """stage (b): the shipped sample model and missions with the counterexample's step fractions and the library's own
    buffer sizes; returns list of problems found by the concrete obligations."""
    import os
    import tomllib
    from pathlib import Path
    import AEIC
    import AEIC.trajectories.builders as tb
    from AEIC.config import Config, config
    from AEIC.missions import Mission
    from AEIC.performance.models import PerformanceModel
    repo = Path(AEIC.__file__).resolve().parents[2]
    data = repo / 'tests' / 'data'
    os.environ['AEIC_PATH'] = str(data)
    Config.reset()
    Config.load(data_path_overrides=[data])
    problems = []
    try:
        with open(config.file_location('missions/sample_missions_10.toml'), 'rb') as f:
            missions = Mission.from_toml(tomllib.load(f))
        pm = PerformanceModel.load(config.file_location('performance/sample_performance_model.toml'))
        ncl, ncr, nde = npts
        lo = tb.LegacyOptions(frac_step_clm=1.0 / (ncl + 0.5), frac_step_crz=1.0 / (ncr + 0.5), frac_step_des=1.0 / (nde - 0.5))
        b = tb.LegacyBuilder(options=tb.Options(iterate_mass=False), legacy_options=lo)
        for mis in missions[:3]:
            try:
                t = b.fly(pm, mis)
            except Exception as e:  # noqa
                problems.append(f'{mis.origin}->{mis.destination}: {type(e).__name__}: {str(e)[:80]}')
                continue
            fm, ft, gd = t.fuel_mass, t.flight_time, t.ground_distance
            if np.any(np.diff(fm) > 1e-9) or np.any(np.diff(ft) < -1e-9) or np.any(np.diff(gd) < -1e-6):
                problems.append(f'{mis.origin}->{mis.destination}: returned trajectory with non-monotone fuel/time/distance (points {len(t)})')
            r = t.interpolate_time(t.flight_time.copy())
            if not np.all(np.isfinite(r.fuel_mass)) or len(r.fuel_mass) != len(t):
                problems.append(f'{mis.origin}->{mis.destination}: interpolate_time at own time points gives non-finite values')
    finally:
        Config.reset()
    return problems


# ---------------------------------------------------------------------------
# C17 on the real LegacyBuilder: a flight on a used builder equals the same flight on a fresh builder


class ReplayablePM(PM):
    """performance model whose answers are a function of the call index: after rewind() the same answers come again"""

    def __init__(self, tag):
        super().__init__(tag)
        self.answers = []
        self.cursor = 0
        self.aircraft_name = 'SYM'

    def rewind(self):
        self.cursor = 0

    def evaluate(self, state, rules):
        if self.cursor < len(self.answers):
            kind, val = self.answers[self.cursor]
            self.cursor += 1
            if kind == 'raise':
                raise val
            return val
        try:
            r = super().evaluate(state, rules)
            self.answers.append(('ok', r))
        except EnvelopeError as e:
            self.answers.append(('raise', e))
            self.cursor += 1
            raise
        self.cursor += 1
        return r


def two_flights_path(npts, caps, first_may_fail=True, fail_only_at=None, regime=None, same_route=False):
    def fn(ex):
        ex.notes['regime'] = regime
        orc = Oracle()
        out = dict(npts=npts)
        with patches(not ex.concrete, caps, orc, 'stub'):
            pm_a, mis_a = ReplayablePM('a_'), Mis('a_')
            # the second mission is any other mission, or one between the same airports with the same aircraft type
            # (as in a schedule that repeats city pairs) that differs in load factor and performance-model answers
            out['same_route'] = same_route
            pm_b, mis_b = ReplayablePM('b_'), Mis('b_', like=mis_a if same_route else None)
            pm_a.may_fail, pm_b.may_fail = first_may_fail, False
            pm_a.fail_only_at = set(fail_only_at) if fail_only_at is not None else None
            for pm_, mis_ in ((pm_a, mis_a), (pm_b, mis_b)):
                ex.assume(mis_.origin_position.altitude + 3000.0 * FT < pm_.maximum_altitude - 7000.0 * FT)
                ex.assume(mis_.destination_position.altitude + 3000.0 * FT < pm_.maximum_altitude - 7000.0 * FT)

            def fly(b, pm_, mis_, tag):
                # the stub track's symbols are named per flight
                ex.notes['track_tag'] = tag
                try:
                    return b.fly(pm_, mis_), None
                except Exception as e:  # noqa
                    return None, e
            shared = make_builder(npts)
            r1 = fly(shared, pm_a, mis_a, 'f1')
            r2 = fly(shared, pm_b, mis_b, 'f2')
            pm_b.rewind()
            fresh = make_builder(npts)
            r3 = fly(fresh, pm_b, mis_b, 'f2')
            out.update(first=r1, shared=r2, fresh=r3, shared_attrs=sorted(shared.__dict__), fresh_attrs=sorted(fresh.__dict__))
        return out
    return fn


def two_flights_obligations(o):
    (t2, e2), (t3, e3) = o['shared'], o['fresh']
    yield 'C17.history.same_outcome_as_fresh_builder', f'shared: {e2!r} fresh: {e3!r}', (e2 is None) == (e3 is None) and (e2 is None or (type(e2) is type(e3) and str(e2) == str(e3)))
    if t2 is None or t3 is None:
        return
    yield 'C17.history.same_length_as_fresh_builder', '', len(t2) == len(t3)
    if not _same_term(t2.starting_mass, t3.starting_mass) or not _same_term(t2.total_fuel_mass, t3.total_fuel_mass):
        yield 'C17.history.starting_mass_and_fuel_identical_to_fresh_builder', 'metadata', sx.sym_and(eq(t2.starting_mass, t3.starting_mass, tol=0.0), eq(t2.total_fuel_mass, t3.total_fuel_mass, tol=0.0))
    else:
        yield 'C17.history.starting_mass_and_fuel_identical_to_fresh_builder', 'metadata (same terms)', True
    if len(t2) != len(t3):
        return
    for name in POINT_FIELDS:
        a, b = getattr(t2, name), getattr(t3, name)
        for i in range(len(t2)):
            if _same_term(a[i], b[i]):
                continue
            yield 'C17.history.identical_to_fresh_builder', f'{name}[{i}]', eq(a[i], b[i], tol=0.0)



def _distinct_inputs(inputs):
    """soft preference used when a counterexample comes from the sign abstraction: the two flights' corresponding
    inputs (a_x vs b_x) take different values, so that recomputing the products on the real code can show the
    difference the abstraction found"""
    cs = []
    for k, v in inputs.items():
        if k.startswith('a_') and ('b_' + k[2:]) in inputs and not z3.is_int_value(v) and 'ceiling' not in k and 'envelope' not in k:
            w = inputs['b_' + k[2:]]
            if z3.is_real(v) and z3.is_real(w):
                cs.append(z3.Or(v - w > 1, w - v > 1))
    return cs


def run_two_flights(job):
    npts, caps = tuple(job['npts']), tuple(job['caps'])
    ex = sx.Explorer(purify=True, deadline=time.time() + job.get('deadline_s', 600))
    out = dict(job=job, obligations={}, violations=[], samples=[], distinct=set(), unknown=[], outcomes={})
    fn = two_flights_path(npts, caps, job.get('first_may_fail', True), job.get('fail_only_at'), job.get('regime'), job.get('same_route', False))
    for p in ex.explore(fn):
        if p.exc is not None:
            out['violations'].append(dict(obligation='harness', detail=f'{p.exc!r} {(p.tb or "")[-600:]}', values={}, tags={}))
            continue
        o = p.result
        kind = ('first ok' if o['first'][0] is not None else 'first rejected') + ', ' + ('second ok' if o['shared'][0] is not None else f"second {type(o['shared'][1]).__name__}")
        e_fresh = o['fresh'][1]
        if isinstance(e_fresh, (AttributeError, NameError, TypeError, KeyError, IndexError)):
            # the flight on a brand-new builder ended in an internal error: the stubs do not offer what the code under
            # analysis uses.  Both builders failing alike would compare equal - report it instead of passing.
            out['violations'].append(dict(obligation='harness', detail=f'flight on a fresh builder raised {e_fresh!r}: the mission/model stubs are incomplete for this tree', values={}, tags={}))
            continue
        out['outcomes'][kind] = out['outcomes'].get(kind, 0) + 1
        groups = {}
        for oid, detail, val in two_flights_obligations(o):
            groups.setdefault(oid, []).append((detail, val))
        for oid, items in groups.items():
            d = out['obligations'].setdefault(oid, dict(unsat=0, sat=0, unknown=0))
            conc_false = [det for det, v in items if not isinstance(v, sx.SymBool) and not v]
            symb = [(det, v) for det, v in items if isinstance(v, sx.SymBool)]
            if conc_false:
                # a model of the path WITH the defining equations of the abstracted products (a genuine input), else the abstract one
                r = 'unknown'
                if r != 'sat':
                    r, m = ex.check(z3.And(*_distinct_inputs(p.inputs)), pc=list(ex.pc), defs=[])
                    if r != 'sat':
                        r, m = ex.check(z3.BoolVal(True), pc=list(ex.pc), defs=[])
                if r == 'sat':
                    d['sat'] += 1
                    out['violations'].append(dict(obligation=oid, detail=str(conc_false[:2]), values={k: sx.mval(m, v) for k, v in p.inputs.items()}, tags=dict(history=kind)))
                    continue
            if not symb:
                d['unsat'] += 1
                out['distinct'].add((oid, kind))
                continue
            r, m = ex.prove_sliced(z3.And(*[v.t for _, v in symb]), pc=list(ex.pc), defs=list(ex.defs))
            d[r] += 1
            if r == 'unsat':
                out['distinct'].add((oid, kind))
            elif r == 'sat':
                neg = z3.Not(z3.And(*[v.t for _, v in symb]))
                r2, m2 = ex.check(z3.And(neg, *_distinct_inputs(p.inputs)), pc=list(ex.pc), defs=[])
                if r2 == 'sat':
                    m = m2
                failing = [det for det, v in symb if not z3.is_true(m.eval(v.t, model_completion=True))]
                out['violations'].append(dict(obligation=oid, detail=str(failing[:3]), values={k: sx.mval(m, v) for k, v in p.inputs.items()}, tags=dict(history=kind)))
            else:
                out['unknown'].append(oid)
        if len(out['samples']) < 2:
            out['samples'].append(dict(history=kind, builder_attributes_after=o['shared_attrs']))
    out['stats'] = ex.stats
    out['truncated'] = ex.truncated
    out['distinct'] = len(out['distinct'])
    return out


def replay_two_flights(job, v):
    fn = two_flights_path(tuple(job['npts']), tuple(job['caps']), job.get('first_may_fail', True), job.get('fail_only_at'), job.get('regime'), job.get('same_route', False))
    values = dict(v['values'])
    import math
    for tag, trk in (('a_', 'trackf1_total_distance'), ('b_', 'trackf2_total_distance')):
        # the route length the solver chose for the stub track is realised with real airports on the equator
        if values.get(trk) is not None and 0.0 < float(values[trk]) < 1.9e7:
            values.update({tag + 'o_lon': 0.0, tag + 'o_lat': 0.0, tag + 'd_lat': 0.0, tag + 'd_lon': math.degrees(float(values[trk]) / 6378137.0)})
    run = sx.ConcreteRun(values)
    res, exc = run.run(fn)
    if exc is not None:
        return False, f'harness raised {exc!r}'
    bad = [(oid, det) for oid, det, val in two_flights_obligations(res) if oid == v['obligation'] and not bool(val)]
    return bool(bad), f'real LegacyBuilder (real numpy): second flight on the used builder vs a fresh builder with the same performance answers: {bad[:3]}'
