"""C03: what is stored is what is read back -- all six dimension combinations and data types of a harness-registered
field set, every subset of a species universe per species-indexed field (solver-chosen membership bits, so fields
with different subsets and gaps in the enumeration are covered), unset optional fields, three file layouts, reopen."""
from __future__ import annotations

import time
from dataclasses import dataclass
from typing import ClassVar

import numpy as np
import z3

import vf.symex as sx
from vf.symex import choose
from vf.harness import store as S

FS_NAME = 'vf_shapes'


def universe():
    from AEIC.types import Species
    import os
    sp = list(Species)
    if os.environ.get('VERIF_TIER', 'quick') == 'quick':
        return [sp[0], sp[4], sp[-1]]             # the first species, one from the middle, the last one
    return [sp[0], sp[1], sp[4], sp[-1]]          # two leading species, one from the middle, the last one


def shapes_fieldset():
    ST, FS, TR = S.mods()
    from AEIC.storage import Dimension, Dimensions, FieldMetadata, FieldSet
    if FS_NAME in FieldSet.REGISTRY:
        return FieldSet.REGISTRY[FS_NAME]
    D = Dimensions.from_abbrev
    return FieldSet(
        FS_NAME,
        sc_f=FieldMetadata(dimensions=D('T'), description='scalar float', units='1'),
        sc_i32=FieldMetadata(dimensions=D('T'), field_type=np.int32, description='scalar int32', units='1'),
        sc_i64=FieldMetadata(dimensions=D('T'), field_type=np.int64, description='scalar int64', units='1'),
        sc_s=FieldMetadata(dimensions=D('T'), field_type=str, description='scalar string', units=''),
        sc_opt=FieldMetadata(dimensions=D('T'), description='optional scalar', units='1', required=False),
        sc_opt_i=FieldMetadata(dimensions=D('T'), field_type=np.int64, description='optional int', units='1', required=False),
        pt_f=FieldMetadata(dimensions=D('TP'), description='pointwise float', units='1'),
        pt_i=FieldMetadata(dimensions=D('TP'), field_type=np.int32, description='pointwise int', units='1'),
        sp_tot=FieldMetadata(dimensions=D('TS'), description='per species', units='g'),
        sp_seg=FieldMetadata(dimensions=D('TSP'), description='per species per point', units='g'),
        tm=FieldMetadata(dimensions=D('TM'), description='per thrust mode', units='g'),
        sp_tm=FieldMetadata(dimensions=D('TSM'), description='per species per thrust mode', units='g'),
    )


def make_values(tag, npoints, subsets, opt_set, tm_order='enum'):
    """dict field -> value for the shapes field set"""
    from AEIC.performance.types import ThrustMode, ThrustModeValues
    from AEIC.types import SpeciesValues
    modes = list(ThrustMode)
    if tm_order == 'reversed':
        modes = modes[::-1]

    def tmv(base):
        return ThrustModeValues({m: float(base + list(ThrustMode).index(m)) for m in modes})
    v = dict(
        sc_f=tag + 0.25, sc_i32=int(tag) * 7, sc_i64=int(tag) * 1000003, sc_s=f'name-{tag}',
        sc_opt=(tag + 0.75) if opt_set else None, sc_opt_i=(int(tag) * 11) if opt_set else None,
        pt_f=np.array([tag * 10.0 + i for i in range(npoints)]), pt_i=np.array([int(tag) * 100 + i for i in range(npoints)], dtype=np.int32),
        sp_tot=SpeciesValues({sp: float(tag * 1000 + int(sp)) for sp in subsets['sp_tot']}),
        sp_seg=SpeciesValues({sp: np.array([tag * 1000.0 + int(sp) * 10 + i for i in range(npoints)]) for sp in subsets['sp_seg']}),
        tm=tmv(tag * 50.0),
        sp_tm=SpeciesValues({sp: tmv(tag * 500.0 + int(sp) * 10) for sp in subsets['sp_tm']}),
    )
    return v


def equal_value(a, b):
    """independent field comparator (not Container.__eq__)"""
    from AEIC.performance.types import ThrustMode, ThrustModeValues
    from AEIC.types import SpeciesValues
    if b is None:
        return a is None
    if a is None:
        return False
    if isinstance(b, SpeciesValues):
        if not isinstance(a, SpeciesValues) or set(a.keys()) != set(b.keys()):
            return False
        return all(equal_value(a[k], b[k]) for k in b.keys())
    if isinstance(b, ThrustModeValues):
        return isinstance(a, ThrustModeValues) and all(abs(float(a[m]) - float(b[m])) < 1e-12 for m in ThrustMode)
    if isinstance(b, np.ndarray):
        return isinstance(a, np.ndarray) and a.shape == b.shape and bool(np.all(a == b))
    if isinstance(b, str):
        return a == b
    return abs(float(a) - float(b)) < 1e-12


def describe(v):
    from AEIC.types import SpeciesValues
    if isinstance(v, SpeciesValues):
        return '{' + ', '.join(f'{k.name}: {describe(x)}' for k, x in v.items()) + '}'
    if isinstance(v, np.ndarray):
        return str(v.tolist())
    return str(v)


@dataclass
class Extras:
    FIELD_SETS: ClassVar[list] = []


def roundtrip_path(backend_kind='fake', fixed=None):
    fixed = fixed or {}

    def pick(name, options):
        return fixed[name] if name in fixed else choose(name, options)

    def fn(ex):
        ST, FS, TR = S.mods()
        fs = shapes_fieldset()
        U = universe()
        layout = pick('layout', ['single_file', 'base_plus_associated', 'create_associated'])
        subsets = {}
        for f in ('sp_tot', 'sp_seg', 'sp_tm'):
            subsets[f] = [sp for j, sp in enumerate(U) if pick(f'{f}_has_{j}', [True, False])]
        opt_set = pick('optional_fields_set', [True, False])
        tm_order = pick('thrust_mode_value_order', ['enum', 'reversed'])
        n_traj = 2
        second_differs = pick('second_trajectory_other_species', [False, True])
        problems = []
        desc = dict(layout=layout, species={k: [s_.name for s_ in v] for k, v in subsets.items()}, optional_set=opt_set, tm_order=tm_order, second_differs=second_differs)
        with S.backend(backend_kind), S.Scratch('c03') as d:
            try:
                base, assoc = d / 'base.nc', d / 'assoc.nc'
                stored = []

                def vals_for(k):
                    sub = subsets
                    if second_differs and k == 1:
                        # the second trajectory carries a subset of the first one's species (per field)
                        sub = {f: v[: max(0, len(v) - 1)] for f, v in subsets.items()}
                    return make_values(k + 1, 2 + k, sub, opt_set, tm_order)
                if layout == 'create_associated':
                    with ST.TrajectoryStore.create(base_file=base) as ts:
                        for k in range(n_traj):
                            ts.add(S.make_traj(k + 1, npoints=2 + k))

                    class Data:
                        FIELD_SETS = [fs]
                    with ST.TrajectoryStore.open(base_file=base) as ts:
                        def mapping(traj):
                            k = S.tag_of(traj) - 1
                            dobj = Data()
                            for nme, val in vals_for(k).items():
                                setattr(dobj, nme, val)
                            stored.append(vals_for(k))
                            return dobj
                        ts.create_associated(assoc, [FS_NAME], mapping)
                    reader = lambda: ST.TrajectoryStore.open(base_file=base, associated_files=[assoc])   # noqa
                else:
                    kw = dict(base_file=base)
                    if layout == 'base_plus_associated':
                        kw['associated_files'] = [(assoc, [FS_NAME])]
                    with ST.TrajectoryStore.create(**kw) as ts:
                        for k in range(n_traj):
                            t = S.make_traj(k + 1, npoints=2 + k, fieldsets=[FS_NAME])
                            vals = vals_for(k)
                            for nme, val in vals.items():
                                setattr(t, nme, val)
                            stored.append(vals)
                            ts.add(t)
                        # read back within the session (cache) as well
                    reader = (lambda: ST.TrajectoryStore.open(base_file=base, associated_files=[assoc])) if layout == 'base_plus_associated' else (lambda: ST.TrajectoryStore.open(base_file=base))
                with reader() as ts:
                    if len(ts) != n_traj:
                        problems.append(f'reopened store has {len(ts)} trajectories')
                    for k in range(min(n_traj, len(ts))):
                        t = ts[k]
                        if not S.check_payload(t, k + 1):
                            problems.append(f'base payload of trajectory {k} differs')
                        for nme, want in stored[k].items():
                            try:
                                got = getattr(t, nme)
                            except Exception as e:  # noqa
                                problems.append(f'trajectory {k} field {nme}: {type(e).__name__}: {e}')
                                continue
                            if not equal_value(got, want):
                                problems.append(f'trajectory {k} field {nme}: stored {describe(want)}, read {describe(got)}')
            except Exception as e:  # noqa
                import traceback
                frames = [l.strip() for l in traceback.format_exc().splitlines() if 'store.py' in l]
                problems.append(f'{type(e).__name__}: {e} @ {frames[-1] if frames else ""}')
        return dict(problems=problems, desc=desc)
    return fn


def classify(problem):
    if 'Index exceeds dimension bound' in problem:
        return 'write position beyond species dimension'
    if 'field sp_' in problem and 'stored' in problem:
        return 'species values differ'
    if 'field tm' in problem or 'sp_tm' in problem:
        return 'thrust mode values differ'
    if 'inconsistent lengths' in problem:
        return 'species arrays unreadable'
    return problem.split(':')[0][:50]


def run(job):
    ex = sx.Explorer(purify=False, deadline=time.time() + job.get('deadline_s', 600), max_paths=10 ** 6)
    out = dict(obligations={}, violations=[], samples=[], distinct=set(), unknown=[])
    oid = 'C03.read_back_equals_stored'
    d = out['obligations'].setdefault(oid, dict(unsat=0, sat=0, unknown=0))
    for p in ex.explore(roundtrip_path(fixed=job.get('fixed'))):
        if p.exc is not None:
            out['violations'].append(dict(obligation='harness', detail=f'{p.exc!r} {(p.tb or "")[-600:]}', values={}, tags={}))
            continue
        o = p.result
        if o['problems']:
            r, m = ex.check(z3.BoolVal(True), pc=list(ex.pc))
            d['sat' if r == 'sat' else 'unknown'] += 1
            vals = {k: sx.mval(m, v) for k, v in p.inputs.items()} if r == 'sat' else {}
            sp = o['desc']['species']
            prefix = all(_is_prefix(v) for v in sp.values())
            same = len({tuple(v) for v in sp.values()}) == 1
            out['violations'].append(dict(obligation=oid, detail=f"{o['desc']}: {o['problems'][:2]}", values=vals,
                                          tags=dict(problem=classify(o['problems'][0]), species_are_enum_prefix=prefix, same_species_in_every_field=same, layout=o['desc']['layout'],
                                                    tm_order=o['desc']['tm_order'], second_differs=o['desc']['second_differs'])))
        else:
            d['unsat'] += 1
            out['distinct'].add(str(o['desc']))
        if len(out['samples']) < 2:
            out['samples'].append(o['desc'])
    out['stats'] = ex.stats
    out['truncated'] = ex.truncated
    out['distinct'] = len(out['distinct'])
    return out


def _is_prefix(names):
    U = [s_.name for s_ in universe()]
    return names == U[: len(names)] and len(names) <= (1 if len(U) == 3 else 2)


def replay(job, v):
    run_ = sx.ConcreteRun(v['values'])
    res, exc = run_.run(roundtrip_path('real', fixed=job.get('fixed')))
    if exc is not None:
        return False, f'harness raised {exc!r}'
    return bool(res['problems']), f"real netCDF4: {res['problems'][:2]}"
