"""C04/C05: trajectory gridding.  The real Gridder.grid_trajectory (and everything below it: antimeridian split,
intersection points, sorting, midpoint cell lookup, altitude/time cell lookup, length fractions) runs on symbolic
trajectory points over a concrete grid, with numpy reached through the SymArr proxy and pyproj replaced by a
geodesic oracle (fresh non-negative distance per distinct pair of points; zero iff the points coincide; the chain
inequality of a metric is instantiated for each chain of pieces).

The horizontal routine and the per-part routine are wrapped by recorders, so obligations can be stated per segment:
  * the row of sub-segment points starts at the segment's first point, ends at its second, every interior point lies on
    the straight map line and the points advance monotonically along it (path order);
  * every piece lies in the closed cell it is attributed to (both end points inside the closed lat/lon cell);
  * the number of cells equals the number of pieces; altitude/time cell = cell of the segment's first point; state
    values = value at the first point;
  * each integrated piece value v satisfies v * D = q * d with d the oracle distance of exactly that piece and D the
    oracle distance of the segment (share of length), and the pieces of a segment add up to no less than q;
  * the antimeridian segment is split at the meridian on the side of its first point, in proportion to the two oracle
    lengths, and the output is the concatenation of the two parts.
Cell convention of the code (np.searchsorted(...) - 1): grid values are lower edges, index i covers (g[i], g[i+1]],
the last index is open-ended; a point at or below g[0] is outside the grid."""
from __future__ import annotations

import math
import sys
import time
import types

import numpy as np
import z3

import vf.symex as sx
from vf.symex import choose, cur, sym, symnp
from vf.symex.symarr import obj

PI = float(np.pi)


def load():
    if 'shapely' not in sys.modules:
        sh, geo = types.ModuleType('shapely'), types.ModuleType('shapely.geometry')

        class Polygon:                                       # grid_polygon is outside C04/C05
            def __init__(self, *a, **k):
                raise NotImplementedError('shapely is not installed (harness stub)')
        geo.Polygon = Polygon
        sh.geometry = geo
        sys.modules['shapely'] = sh
        sys.modules['shapely.geometry'] = geo
    import AEIC.gridding.grid as G
    return G


TOL = 1e-9


def concrete():
    return getattr(cur(), 'concrete', False)


def L(x):
    """value as a solver term (symbolic run) or float (replay on the real code)"""
    if concrete():
        return float(x)
    return sx.lift(x)


class T:
    """solver-side / float-side formula construction with the same spelling"""

    @staticmethod
    def eq(a, b):
        if concrete():
            return abs(a - b) <= TOL * (1 + abs(a) + abs(b))
        return a == b

    @staticmethod
    def ge(a, b):
        if concrete():
            return a >= b - TOL * (1 + abs(a) + abs(b))
        return a >= b

    @staticmethod
    def le(a, b):
        return T.ge(b, a)

    @staticmethod
    def gt(a, b):
        if concrete():
            return a > b
        return a > b

    @staticmethod
    def and_(*xs):
        if concrete():
            return all(bool(x) for x in xs)
        return z3.And(*[x if isinstance(x, z3.ExprRef) else z3.BoolVal(bool(x)) for x in xs]) if xs else z3.BoolVal(True)

    @staticmethod
    def or_(*xs):
        if concrete():
            return any(bool(x) for x in xs)
        return z3.Or(*[x if isinstance(x, z3.ExprRef) else z3.BoolVal(bool(x)) for x in xs])

    @staticmethod
    def implies(a, b):
        if concrete():
            return (not a) or bool(b)
        return z3.Implies(a, b)

    @staticmethod
    def total(xs):
        if concrete():
            return float(sum(xs))
        return sum(xs, z3.RealVal(0))


def same_term(a, b):
    if concrete():
        return abs(float(a) - float(b)) <= 1e-12 * (1 + abs(float(a)))
    if sx.is_sym(a) or sx.is_sym(b):
        return z3.simplify(sx.lift(a) == sx.lift(b)).eq(z3.BoolVal(True)) or str(z3.simplify(sx.lift(a))) == str(z3.simplify(sx.lift(b)))
    return float(a) == float(b)


class GridOracle:
    """GEOD.inv(lon1, lat1, lon2, lat2, radians=True)[2] -> distance"""

    def __init__(self, real=None):
        self.calls = []          # dict(args=(lon1, lat1, lon2, lat2), d=SymFloat)
        self.by_key = {}
        self.real = real

    def _one(self, lo1, la1, lo2, la2):
        key = tuple(str(z3.simplify(L(v))) if sx.is_sym(v) else repr(float(v)) for v in (lo1, la1, lo2, la2))
        if key in self.by_key:
            return self.by_key[key]['d']
        ex = cur()
        k = len(self.calls)
        if ex.concrete:
            d = float(self.real.inv(float(lo1), float(la1), float(lo2), float(la2), radians=True)[2])
            c = dict(args=(lo1, la1, lo2, la2), d=d)
            self.calls.append(c)
            self.by_key[key] = c
            return d
        d = sym(f'geod{k}_dist', 0.0)
        same = z3.And(L(lo1) == L(lo2), L(la1) == L(la2)) if any(sx.is_sym(v) for v in (lo1, la1, lo2, la2)) else z3.BoolVal(float(lo1) == float(lo2) and float(la1) == float(la2))
        if not ex.concrete:
            ex.assume(z3.simplify(same == (L(d) == 0)))           # a distance is zero exactly for coinciding points
        c = dict(args=(lo1, la1, lo2, la2), d=d)
        self.calls.append(c)
        self.by_key[key] = c
        return d

    def inv(self, lon1, lat1, lon2, lat2, radians=False, **k):
        assert radians is True, 'gridding passes radians'
        if isinstance(lon1, np.ndarray) or isinstance(lat1, np.ndarray) or isinstance(lon2, np.ndarray) or isinstance(lat2, np.ndarray):
            a = [np.asarray(x.view(np.ndarray) if isinstance(x, np.ndarray) else x, dtype=object) for x in (lon1, lat1, lon2, lat2)]
            b = np.broadcast_arrays(*a)
            out = np.empty(b[0].shape, dtype=object)
            for idx in np.ndindex(b[0].shape):
                out[idx] = self._one(b[0][idx], b[1][idx], b[2][idx], b[3][idx])
            return None, None, (out.astype(float) if cur().concrete else obj(out))
        return None, None, self._one(lon1, lat1, lon2, lat2)

    def find(self, lo1, la1, lo2, la2):
        """the recorded distance between these two points (either direction of the same call is NOT assumed symmetric)"""
        for c in self.calls:
            a = c['args']
            if same_term(a[0], lo1) and same_term(a[1], la1) and same_term(a[2], lo2) and same_term(a[3], la2):
                return c['d']
        return None


GRIDS = {
    # name: (lat lines, lon lines)   values in radians; lower edges, last cell open-ended
    'regional3x3': ([-0.6, -0.2, 0.2, 0.6], [-1.5, -0.5, 0.5, 1.5]),
    'uneven': ([-0.7, -0.1, 0.05, 0.8], [-2.0, -0.3, 0.1, 0.9]),
    'global_from_-pi': ([-1.2, -0.4, 0.4, 1.2], [-PI, -1.5, 0.0, 1.5]),
    'global_below_-pi': ([-1.2, -0.4, 0.4, 1.2], [-PI - 0.1, -1.5, 0.0, 1.5]),
    'fine2': ([-0.3, 0.0, 0.3], [-0.4, 0.0, 0.4]),
}
ALT_LINES = [-100.0, 3000.0, 9000.0]
TIME_LINES = [0.0, 3600.0, 7200.0]


def grid_path(cfg):
    """cfg: grid name, n_points, boxes (per point lat/lon box or None = whole grid), with_alt, with_time, n_state, n_int"""
    def fn(ex):
        G = load()
        glat, glon = GRIDS[cfg['grid']]
        n = cfg['n_points']
        with_alt, with_time = cfg.get('with_alt', False), cfg.get('with_time', False)
        g = G.Gridder(np.array(glat), np.array(glon), np.array(ALT_LINES) if with_alt else None, np.array(TIME_LINES) if with_time else None)
        boxes = cfg.get('boxes') or [None] * n
        eps = 1e-3
        lat_v, lon_v = [], []
        for i in range(n):
            b = boxes[i] or (glat[0], glat[-1] + 0.3, max(glon[0], -PI), min(glon[-1] + 0.5, PI) if glon[0] <= -PI else min(glon[-1] + 0.5, glon[0] + 3.1, PI))      # the whole grid, first grid lines included
            lat_v.append(sym(f'lat{i}', b[0], b[1]))
            lon_v.append(sym(f'lon{i}', b[2], b[3]))
        arr = (lambda v: np.array([float(x) for x in v])) if ex.concrete else obj
        lats, lons = arr(lat_v), arr(lon_v)
        ab = cfg.get('alt_boxes') or [None] * n          # only the first point of a segment decides its altitude/time cell; later points may be boxed
        tb = cfg.get('time_boxes') or [None] * n
        alts = arr([sym(f'alt{i}', *(ab[i] or (ALT_LINES[0], 12000.0))) for i in range(n)]) if with_alt else None
        times = arr([sym(f'time{i}', *(tb[i] or (TIME_LINES[0], 9000.0))) for i in range(n)]) if with_time else None
        state = tuple(arr([sym(f'state{k}_{i}', -5.0, 5.0) for i in range(n)]) for k in range(cfg.get('n_state', 1)))
        integ = tuple(arr([sym(f'integrated{k}_{i}', 0.0, 100.0) for i in range(n - 1)]) for k in range(cfg.get('n_int', 1)))
        orc = GridOracle(real=G.GEOD)
        rec = dict(parts=[], horiz=[])
        real_part = G.Gridder._cell_idxs_touched_by_trajectory_with_state_and_integrated_vars
        real_h = G.Gridder._trajectory_intersection_points_and_cells_horizontal

        def rec_h(self, la, lo):
            r = real_h(self, la, lo)
            rec['horiz'].append(dict(lats=la, lons=lo, points=r[0], idx=r[1]))
            return r

        def rec_part(self, la, lo, al=None, ti=None, sv=(), iv=()):
            h0 = len(rec['horiz'])
            r = real_part(self, la, lo, al, ti, sv, iv)
            rec['parts'].append(dict(lats=la, lons=lo, alts=al, times=ti, state=sv, integ=iv, out=r, horiz=rec['horiz'][h0:]))
            return r
        out = dict(cfg=cfg, g=g, lats=lat_v, lons=lon_v, alts=alts, times=times, state=state, integ=integ, orc=orc, rec=rec, glat=glat, glon=glon)
        with sx.patched(*([] if ex.concrete else [(G, 'np', symnp)]), (G, 'GEOD', orc), (G.Gridder, '_cell_idxs_touched_by_trajectory_with_state_and_integrated_vars', rec_part),
                        (G.Gridder, '_trajectory_intersection_points_and_cells_horizontal', rec_h)):
            import warnings
            with warnings.catch_warnings(record=True) as w:
                warnings.simplefilter('always')
                try:
                    out['res'] = g.grid_trajectory(lats, lons, alts, times, state, integ)
                    out['exc'] = None
                except Exception as e:  # noqa
                    import traceback
                    out['res'], out['exc'], out['tb'] = None, e, traceback.format_exc()
            out['warned'] = [str(x.message)[:60] for x in w]
        return out
    return fn


# ---------------------------------------------------------------------------
# obligations (written once; solver terms in the symbolic run, floats with tolerance in the replay on the real code)


def B(t):
    return sx.SymBool(t) if isinstance(t, z3.ExprRef) else bool(t)


def eqv(a, b):
    return T.eq(L(a), L(b))


def _isnan(v):
    return isinstance(v, float) and math.isnan(v)


def _row(a, i):
    r = a.view(np.ndarray) if isinstance(a, np.ndarray) else np.asarray(a, dtype=object)
    return [x for x in list(r[i]) if not _isnan(x)]


def _flat(a):
    if a is None:
        return None
    r = a.view(np.ndarray) if isinstance(a, np.ndarray) else np.asarray(a, dtype=object)
    return list(r.ravel())


def cell_contains(glines, i, x):
    """x in the closed cell i of the lower-edge grid `glines` (last cell open-ended)"""
    if not (0 <= i < len(glines)):
        return False
    lo = T.ge(L(x), L(float(glines[i])))
    if i + 1 < len(glines):
        return T.and_(lo, T.le(L(x), L(float(glines[i + 1]))))
    return lo


def index_cell(glines, x, first_closed=True):
    """condition under which index i is a correct cell for the value: the value lies in the closed cell i (so either
    half-open convention is accepted; the code's is (g[i], g[i+1]] with the first grid line in the first cell)"""
    return {i: cell_contains(glines, i, x) for i in range(len(glines))}


ALSO_C04 = {
    'C05.geometry.interior_points_lie_on_the_map_line': 'C04.excess.pieces_lie_on_the_map_line',
    'C05.order.pieces_advance_along_the_segment': 'C04.excess.pieces_advance_without_overlap',
    'C05.order.first_point_is_segment_start': 'C04.excess.pieces_start_at_the_segment_start',
    'C05.order.last_point_is_segment_end': 'C04.excess.pieces_end_at_the_segment_end',
    'C05.share.piece_value_is_its_share_of_length': 'C04.share.piece_value_is_its_share_of_length',
    'C05.share.piece_length_is_the_geodesic_of_its_end_points': 'C04.share.piece_length_is_the_geodesic_of_its_end_points',
    'C05.share.segment_length_is_the_geodesic_of_its_end_points': 'C04.share.segment_length_is_the_geodesic_of_its_end_points',
    'C05.lengths.integrated_values_match': 'C04.lengths.one_value_per_piece',
    'C05.outcome.no_internal_error': 'C04.outcome.no_internal_error',
    'C05.output.integrated_values_are_those_of_the_parts': 'C04.output.integrated_values_are_those_of_the_parts',
}


def part_obligations(o, part, tag):
    """one call of the per-part routine: geometry, cells, bookkeeping and shares"""
    glat, glon = o['glat'], o['glon']
    orc = o['orc']
    la, lo = _flat(part['lats']), _flat(part['lons'])
    nseg = len(la) - 1
    if len(part['horiz']) != 1:
        yield 'C05.structure.one_horizontal_pass_per_part', tag, False
        return
    h = part['horiz'][0]
    (pl, pn), (il, io) = h['points'], h['idx']
    lat_idx, lon_idx, alt_idx, time_idx, state_vals, integ_vals = part['out']
    lat_idx, lon_idx = [int(v) for v in _flat(lat_idx)], [int(v) for v in _flat(lon_idx)]
    pos = 0
    seg_slices = []
    for i in range(nseg):
        pts_lat, pts_lon = _row(pl, i), _row(pn, i)
        cl, cn = _row(il, i), _row(io, i)
        t = f'{tag} segment {i}'
        ok_shape = len(pts_lat) == len(pts_lon) and len(cl) == len(cn) and len(cl) == len(pts_lat) - 1 and len(cl) >= 1
        yield 'C05.lengths.points_and_cells_of_a_segment_match', f'{t}: {len(pts_lat)} lat, {len(pts_lon)} lon points, {len(cl)}/{len(cn)} cells', ok_shape
        if not ok_shape:
            return
        k = len(cl)
        p0, p1 = (la[i], lo[i]), (la[i + 1], lo[i + 1])
        yield 'C05.order.first_point_is_segment_start', t, T.and_(eqv(pts_lat[0], p0[0]), eqv(pts_lon[0], p0[1]))
        yield 'C05.order.last_point_is_segment_end', t, T.and_(eqv(pts_lat[-1], p1[0]), eqv(pts_lon[-1], p1[1]))
        dlat, dlon = L(p1[0]) - L(p0[0]), L(p1[1]) - L(p0[1])
        for j in range(1, k):
            cross = (L(pts_lat[j]) - L(p0[0])) * dlon - (L(pts_lon[j]) - L(p0[1])) * dlat
            yield 'C05.geometry.interior_points_lie_on_the_map_line', f'{t} point {j}', T.eq(cross, 0 * cross)
        for j in range(k):
            # on the map line (shown above) a piece advances iff each coordinate moves the way the segment does
            sl, sn = L(pts_lat[j + 1]) - L(pts_lat[j]), L(pts_lon[j + 1]) - L(pts_lon[j])
            z = 0 * sl
            if concrete():
                adv = (sl * dlat >= -TOL) and (sn * dlon >= -TOL) and (dlat != 0 or abs(sl) <= TOL) and (dlon != 0 or abs(sn) <= TOL)
            else:
                adv = T.and_(T.implies(dlat >= 0, sl >= z), T.implies(dlat <= 0, sl <= z), T.implies(dlon >= 0, sn >= z), T.implies(dlon <= 0, sn <= z))
            yield 'C05.order.pieces_advance_along_the_segment', f'{t} piece {j}', adv
            a, b = int(cl[j]), int(cn[j])
            in_lon = T.and_(cell_contains(glon, b, pts_lon[j]), cell_contains(glon, b, pts_lon[j + 1]))
            # a zero-length piece on the antimeridian (-pi) may be listed in the cell that contains +pi: the same meridian
            on_am = T.and_(T.eq(L(pts_lon[j]), L(-PI)), T.eq(L(pts_lon[j + 1]), L(-PI)), cell_contains(glon, b, PI))
            yield 'C05.cells.piece_lies_in_its_cell', f'{t} piece {j} cell ({a},{b})', T.and_(
                cell_contains(glat, a, pts_lat[j]), cell_contains(glat, a, pts_lat[j + 1]), T.or_(in_lon, on_am))
        # flattened outputs of the part
        yield 'C05.lengths.flat_cells_follow_the_segments_in_order', t, lat_idx[pos:pos + k] == [int(v) for v in cl] and lon_idx[pos:pos + k] == [int(v) for v in cn]
        seg_slices.append((pos, k, pts_lat, pts_lon))
        pos += k
    yield 'C05.lengths.no_extra_cells', f'{tag}: {len(lat_idx)} cells for {pos} pieces', len(lat_idx) == pos and len(lon_idx) == pos
    # altitude / time / state
    for nm, lines, vals, idxs in (('altitude', ALT_LINES, part['alts'], alt_idx), ('time', TIME_LINES, part['times'], time_idx)):
        if vals is None:
            continue
        vals, idxs = _flat(vals), [int(v) for v in _flat(idxs)]
        yield f'C05.lengths.{nm}_cells_match', f'{tag}: {len(idxs)} vs {pos}', len(idxs) == pos
        if len(idxs) != pos:
            continue
        for i, (p, k, _, _) in enumerate(seg_slices):
            want = index_cell(lines, vals[i], first_closed=True)
            for j in range(k):
                got = idxs[p + j]
                yield f'C05.cells.{nm}_cell_of_the_segment_start', f'{tag} segment {i} piece {j} -> {got}', want[got] if got in want else False
    for kk, (var, outv) in enumerate(zip(part['state'], state_vals)):
        var, outv = _flat(var), _flat(outv)
        yield 'C05.lengths.state_values_match', f'{tag}: {len(outv)} vs {pos}', len(outv) == pos
        if len(outv) != pos:
            continue
        for i, (p, k, _, _) in enumerate(seg_slices):
            for j in range(k):
                yield 'C05.state.value_of_the_segment_start', f'{tag} state {kk} segment {i} piece {j}', eqv(outv[p + j], var[i])
    for kk, (var, outv) in enumerate(zip(part['integ'], integ_vals)):
        var, outv = _flat(var), _flat(outv)
        yield 'C05.lengths.integrated_values_match', f'{tag}: {len(outv)} vs {pos}', len(outv) == pos and len(var) == nseg
        if len(outv) != pos or len(var) != nseg:
            continue
        for i, (p, k, pts_lat, pts_lon) in enumerate(seg_slices):
            D = orc.find(lo[i], la[i], lo[i + 1], la[i + 1])
            yield 'C05.share.segment_length_is_the_geodesic_of_its_end_points', f'{tag} segment {i}', D is not None
            if D is None:
                continue
            ds = []
            for j in range(k):
                d = orc.find(pts_lon[j], pts_lat[j], pts_lon[j + 1], pts_lat[j + 1])
                yield 'C05.share.piece_length_is_the_geodesic_of_its_end_points', f'{tag} segment {i} piece {j}', d is not None
                if d is None:
                    break
                ds.append(d)
                # share of the segment's length: v * D == q * d   (for a segment of positive length)
                yield 'C05.share.piece_value_is_its_share_of_length', f'{tag} integrated {kk} segment {i} piece {j}', T.or_(T.eq(L(D), 0 * L(D)) if not concrete() else L(D) == 0, T.eq(L(outv[p + j]) * L(D), L(var[i]) * L(d)))
            if len(ds) != k:
                continue
            total = T.total([L(v) for v in outv[p:p + k]])
            chain = T.ge(T.total([L(d) for d in ds]), L(D))          # metric: a chain from start to end is no shorter than the geodesic
            yield 'C04.segment.pieces_add_up_to_no_less_than_the_segment_value', f'{tag} integrated {kk} segment {i} ({k} pieces)', T.implies(chain, T.ge(total, L(var[i])))
            if k == 1:
                yield 'C04.segment.single_piece_carries_the_whole_value', f'{tag} integrated {kk} segment {i}', eqv(outv[p], var[i])


def obligations(o):
    if o['exc'] is not None:
        yield 'C05.outcome.no_internal_error', f"{type(o['exc']).__name__}: {str(o['exc'])[:80]}", False
        return
    lats, lons = o['lats'], o['lons']
    n = len(lats)
    parts = o['rec']['parts']
    g = o['g']
    # crossings as the specification sees them: |dlon| > pi
    crossing = [i for i in range(n - 1) if _decided(T.or_(T.gt(L(lons[i + 1]) - L(lons[i]), L(PI)), T.gt(L(lons[i]) - L(lons[i + 1]), L(PI))))]
    if len(crossing) > 1:
        return                                              # more than one crossing: outside the property
    res = o['res']
    if not crossing:
        yield 'C05.structure.one_pass_without_crossing', str(len(parts)), len(parts) == 1
        if len(parts) != 1:
            return
        p = parts[0]
        yield 'C05.structure.part_is_the_trajectory', '', all(same_term(a, b) for a, b in zip(_flat(p['lats']) + _flat(p['lons']), lats + lons)) and len(_flat(p['lats'])) == n
        yield from part_obligations(o, p, 'trajectory')
        yield from output_obligations(o, [p])
        for kk, var in enumerate(o['integ']):
            outv = _flat(res[5][kk])
            yield from total_obligation(o, kk, [p], outv, _flat(var))
        return
    c = crossing[0]
    yield 'C05.structure.two_passes_for_one_crossing', str(len(parts)), len(parts) == 2
    if len(parts) != 2:
        return
    first, second = parts
    # the meridian on the side of the first point: +pi when the first point is in the eastern hemisphere
    east = _decided(T.gt(L(lons[c]), 0 * L(lons[c])))
    edge1, edge2 = (PI, -PI) if east else (-PI, PI)
    f_lat, f_lon = _flat(first['lats']), _flat(first['lons'])
    s_lat, s_lon = _flat(second['lats']), _flat(second['lons'])
    # the crossing latitude is the implementation's choice (the code uses the latitude of the first point); it only has
    # to be the same point of the meridian on both sides
    ok1 = len(f_lat) == c + 2 and all(same_term(a, b) for a, b in zip(f_lat[: c + 1] + f_lon[: c + 1], lats[: c + 1] + lons[: c + 1])) and same_term(f_lon[-1], edge1)
    ok2 = len(s_lat) == n - c and all(same_term(a, b) for a, b in zip(s_lat[1:] + s_lon[1:], lats[c + 1:] + lons[c + 1:])) and same_term(s_lat[0], f_lat[-1]) and same_term(s_lon[0], edge2)
    yield 'C04.split.first_part_ends_at_the_meridian_on_the_side_of_the_first_point', f'crossing segment {c}: ends at lon {f_lon[-1]}', ok1
    yield 'C04.split.second_part_starts_at_the_same_point_of_the_opposite_meridian', f'crossing segment {c}: starts at lon {s_lon[0]}', ok2
    if not (ok1 and ok2):
        return
    orc = o['orc']
    d1 = orc.find(lons[c], lats[c], edge1, f_lat[-1])
    d2 = orc.find(edge2, s_lat[0], lons[c + 1], lats[c + 1])
    yield 'C04.split.part_lengths_are_geodesics_to_and_from_the_meridian', '', d1 is not None and d2 is not None
    for kk, var in enumerate(o['integ']):
        var = _flat(var)
        v1, v2 = _flat(first['integ'][kk]), _flat(second['integ'][kk])
        yield 'C04.split.other_segments_keep_their_values', f'integrated {kk}', len(v1) == c + 1 and len(v2) == n - 1 - c and all(same_term(a, b) for a, b in zip(v1[:c] + v2[1:], var[:c] + var[c + 1:]))
        if d1 is not None and d2 is not None and len(v1) == c + 1 and len(v2) >= 1:
            tot = L(d1) + L(d2)
            yield 'C04.split.crossing_segment_split_in_proportion_to_the_part_lengths', f'integrated {kk}', T.or_(T.eq(tot, 0 * tot) if not concrete() else tot == 0, T.and_(T.eq(L(v1[c]) * tot, L(var[c]) * L(d1)), T.eq(L(v2[0]) * tot, L(var[c]) * L(d2))))
            yield 'C04.split.the_two_parts_add_up_to_the_segment_value', f'integrated {kk}', T.eq(L(v1[c]) + L(v2[0]), L(var[c]))
    for nm in ('alts', 'times'):
        if o[nm] is not None:
            src = _flat(o[nm])
            a1, a2 = _flat(first[nm]), _flat(second[nm])
            yield f'C05.split.{nm}_of_both_parts_start_from_the_first_point', '', all(same_term(a, b) for a, b in zip(a1, src[: c + 1] + [src[c]])) and all(same_term(a, b) for a, b in zip(a2, [src[c]] + src[c + 1:]))
    for kk, var in enumerate(o['state']):
        src = _flat(var)
        a1, a2 = _flat(first['state'][kk]), _flat(second['state'][kk])
        yield 'C05.split.state_of_both_parts_start_from_the_first_point', f'state {kk}', all(same_term(a, b) for a, b in zip(a1, src[: c + 1] + [src[c]])) and all(same_term(a, b) for a, b in zip(a2, [src[c]] + src[c + 1:])) and len(a1) == c + 2 and len(a2) == n - c
    yield from part_obligations(o, first, 'first part')
    yield from part_obligations(o, second, 'second part')
    yield from output_obligations(o, [first, second])
    for kk, var in enumerate(o['integ']):
        outv = _flat(res[5][kk])
        yield from total_obligation(o, kk, [first, second], outv, _flat(var))


def _decided(b):
    if not isinstance(b, z3.ExprRef):
        return bool(b)
    ex = cur()
    t = ex.feasible(b)
    if not t:
        return False
    f = ex.feasible(z3.Not(b))
    if not f:
        return True
    raise sx.Unmodelled('crossing/hemisphere not decided on this path')


def output_obligations(o, parts):
    """the arrays returned by grid_trajectory = concatenation of the parts, cells given by their grid values"""
    res, g = o['res'], o['g']
    cl, cn, ca, ct, sv, iv = res
    want_lat, want_lon, want_alt, want_time = [], [], [], []
    for p in parts:
        li, lo_, ai, ti, _, _ = p['out']
        want_lat += [float(g.grid_latitudes[int(i)]) for i in _flat(li)]
        want_lon += [float(g.grid_longitudes[int(i)]) for i in _flat(lo_)]
        if o['alts'] is not None:
            want_alt += [float(g.grid_altitudes[int(i)]) for i in _flat(ai)]
        if o['times'] is not None:
            want_time += [float(g.grid_times[int(i)]) for i in _flat(ti)]
    yield 'C05.output.cell_latitudes', '', [float(x) for x in _flat(cl)] == want_lat
    yield 'C05.output.cell_longitudes', '', [float(x) for x in _flat(cn)] == want_lon
    npieces = len(want_lat)
    if o['alts'] is not None:
        yield 'C05.output.cell_altitudes', '', ca is not None and [float(x) for x in _flat(ca)] == want_alt
    if o['times'] is not None:
        yield 'C05.output.cell_times', '', ct is not None and [float(x) for x in _flat(ct)] == want_time
    yield 'C05.lengths.all_outputs_have_matching_lengths', f'{npieces} cells', (len(_flat(cn)) == npieces and (o['alts'] is None or len(_flat(ca)) == npieces) and (o['times'] is None or len(_flat(ct)) == npieces)
                                                                    and len(sv) == len(o['state']) and len(iv) == len(o['integ']) and all(len(_flat(x)) == npieces for x in sv) and all(len(_flat(x)) == npieces for x in iv))
    for kk in range(len(o['state'])):
        want = [x for p in parts for x in _flat(p['out'][4][kk])]
        yield 'C05.output.state_values_are_those_of_the_parts', f'state {kk}', len(want) == len(_flat(sv[kk])) and all(same_term(a, b) for a, b in zip(_flat(sv[kk]), want))
    for kk in range(len(o['integ'])):
        want = [x for p in parts for x in _flat(p['out'][5][kk])]
        yield 'C05.output.integrated_values_are_those_of_the_parts', f'integrated {kk}', len(want) == len(_flat(iv[kk])) and all(same_term(a, b) for a, b in zip(_flat(iv[kk]), want))


def total_obligation(o, kk, parts, outv, var):
    """gridded total >= trajectory total, given the chain inequality for every segment's pieces"""
    orc = o['orc']
    chains = []
    for p in parts:
        la, lo = _flat(p['lats']), _flat(p['lons'])
        h = p['horiz'][0]
        (pl, pn), _ = h['points'], h['idx']
        for i in range(len(la) - 1):
            pts_lat, pts_lon = _row(pl, i), _row(pn, i)
            D = orc.find(lo[i], la[i], lo[i + 1], la[i + 1])
            ds = [orc.find(pts_lon[j], pts_lat[j], pts_lon[j + 1], pts_lat[j + 1]) for j in range(len(pts_lat) - 1)]
            if D is None or any(d is None for d in ds):
                return                                  # reported by the share obligations
            chains.append(T.ge(T.total([L(d) for d in ds]), L(D)))
    total_out = T.total([L(v) for v in outv])
    total_in = T.total([L(v) for v in var])
    yield 'C04.total.gridded_total_is_no_less_than_the_trajectory_total', f'integrated {kk}: {len(outv)} pieces', T.implies(T.and_(*chains), T.ge(total_out, total_in))


# ---------------------------------------------------------------------------


def classify(o):
    if o['exc'] is not None:
        return 'raised'
    if o['res'] is None:
        return 'none'
    return f"{len(o['rec']['parts'])} part(s), {len(_flat(o['res'][0]))} pieces"


def run(job):
    cfg = job['cfg']
    t_start = time.time()
    ex = sx.Explorer(purify=False, deadline=time.time() + job.get('deadline_s', 600), max_paths=10 ** 6)
    out = dict(obligations={}, violations=[], samples=[], distinct=set(), unknown=[], outcomes={}, aborted=[], time_by_obligation={})
    for p in ex.explore(grid_path(cfg)):
        if p.exc is not None:
            out['aborted'].append(f'{p.exc!r} {(p.tb or "")[-500:]}')
            continue
        o = p.result
        kind = classify(o)
        out['outcomes'][kind] = out['outcomes'].get(kind, 0) + 1
        try:
            obs = list(obligations(o))
        except sx.Unmodelled as e:
            out['aborted'].append(f'obligations: {e}')
            continue
        for oid, detail, val in obs:
            d = out['obligations'].setdefault(oid, dict(unsat=0, sat=0, unknown=0))
            t0 = time.time()
            val = B(val)
            if isinstance(val, sx.SymBool):
                r, m = ex.prove(val, pc=list(ex.pc), timeout_ms=job.get('timeout_ms', 15000))
            else:
                r, m = ('unsat', None) if val else ex.check(z3.BoolVal(True), pc=list(ex.pc))
            d[r] += 1
            out['time_by_obligation'][oid] = out['time_by_obligation'].get(oid, 0.0) + time.time() - t0
            if r == 'unsat':
                out['distinct'].add((oid, kind))
            elif r == 'sat':
                vals = {k: sx.mval(m, v) for k, v in p.inputs.items()}
                out['violations'].append(dict(obligation=oid, detail=detail, values=vals, tags=dict(grid=cfg['grid'], kind=kind, what=_what(oid, detail, o)), cfg=cfg))
            else:
                out['unknown'].append(f'{oid} {detail}')
        if len(out['samples']) < 3:
            out['samples'].append(dict(outcome=kind, grid=cfg['grid'], n_points=cfg['n_points']))
    out['stats'] = ex.stats
    out['truncated'] = ex.truncated
    out['distinct'] = len(out['distinct'])
    out['wall_s'] = round(time.time() - t_start, 1)
    return out


def _what(oid, detail, o):
    if oid.endswith('no_internal_error'):
        return detail[:60]
    return ''


def replay(v):
    """re-runs the counterexample on the real code (real numpy, real pyproj) and re-evaluates the obligations numerically"""
    run_ = sx.ConcreteRun(v['values'])
    res, exc = run_.run(grid_path(v['cfg']))
    if exc is not None:
        return False, f'harness raised {exc!r}'
    prev = sx.core._CUR
    sx.core._CUR = run_
    try:
        failed = [(oid, detail) for oid, detail, val in obligations(res) if not bool(val)]
    finally:
        sx.core._CUR = prev
    pts = ', '.join(f"({v['values'].get(f'lat{i}'):.6g}, {v['values'].get(f'lon{i}'):.6g})" for i in range(v['cfg']['n_points']))
    names = {v['obligation'], ALSO_C04.get(v['obligation'], v['obligation'])} | {k for k, w in ALSO_C04.items() if w == v['obligation']}
    hit = [f for f in failed if f[0] in names]
    out = res['res']
    summary = ''
    if out is not None and res['exc'] is None:
        summary = f" cells(lat,lon)={list(zip(np.round(np.asarray(out[0], dtype=float), 4).tolist(), np.round(np.asarray(out[1], dtype=float), 4).tolist()))}"
        if out[5]:
            summary += f" integrated in={np.asarray(res['integ'][0], dtype=float).tolist()} out={np.round(np.asarray(out[5][0], dtype=float), 6).tolist()}"
    return bool(hit), f"real Gridder on grid {v['cfg']['grid']} (lat,lon in rad) points {pts}:{summary}; failing on the real code: {[h[0] + ' ' + h[1] for h in hit][:2]}"
