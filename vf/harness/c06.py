"""C06: table performance model.  E1: real evaluate/_evaluate_checked/evaluate_impl/PerformanceTable.interpolate/
Interpolator.__call__ with symbolic table values and query state over a reference model of scipy's interpn;
E2 (QF_FP): the metres<->flight-level round trip of the library's own constants for every integer flight level."""
from __future__ import annotations

import itertools
import time

import numpy as np
import z3

import vf.symex as sx
from vf.symex import choose, cur, obj, sym, symnp

FLS_BY_PHASE = {'climb': [0.0, 100.0, 250.0], 'cruise': [100.0, 250.0], 'descent': [0.0, 100.0, 250.0]}
MASSES = [50000.0, 60000.0, 70000.0]
PHASES = ['climb', 'cruise', 'descent']


def mods():
    import AEIC.performance.models.legacy as LM
    import AEIC.performance.models.base as BM
    return LM, BM


def placeholder_rows():
    rows = []
    for fl in FLS_BY_PHASE['climb']:
        for k, m in enumerate(MASSES):
            rows.append([fl, m, 100.0 + fl / 10, 12.0 - k - fl / 100, 1.0 + fl / 1000])
    for fl in FLS_BY_PHASE['cruise']:
        for k, m in enumerate(MASSES):
            rows.append([fl, m, 150.0 + fl / 10, 0.0, 0.5 + k / 10 + fl / 1000])
    for fl in FLS_BY_PHASE['descent']:
        rows.append([fl, MASSES[1], 120.0 + fl / 10, -8.0 - fl / 100, 0.2 + fl / 1000])
    return rows


def build_model():
    """a real LegacyPerformanceModel assembled by pandas from a concrete table of the wanted shape"""
    LM, BM = mods()
    from AEIC.types import AircraftClass
    return LM.LegacyPerformanceModel(model_type='legacy', aircraft_name='SYM', aircraft_class=list(AircraftClass)[0], maximum_altitude_ft=41000,
                                     maximum_payload_kg=20000, number_of_engines=2, speeds=None, lto_performance=None,
                                     flight_performance=LM.PerformanceTableInput(cols=['fl', 'mass', 'tas', 'rocd', 'fuel_flow'], data=placeholder_rows()))


def inject_symbols(pm):
    """replace the value arrays of the three interpolators by symbols (grid coordinates stay concrete)"""
    LM, BM = mods()
    pt = pm.performance_table
    tabs = {}
    for phase, flt in zip(PHASES, (LM.ROCDFilter.POSITIVE, LM.ROCDFilter.ZERO, LM.ROCDFilter.NEGATIVE)):
        it = LM.Interpolator(pt.subset(flt).df)
        pt._interpolators[flt] = it
        tabs[phase] = {}
        for var in ('tas', 'rocd', 'fuel_flow'):
            shape = np.asarray(getattr(it, var)).shape
            a = np.empty(shape, dtype=object)
            for idx in np.ndindex(shape):
                a[idx] = sym(f'{phase}_{var}_' + '_'.join(map(str, idx)), -1e4, 1e4)
            setattr(it, var, a.view(sx.SymArr) if not cur().concrete else a.astype(float))
            tabs[phase][var] = a
    return tabs


def interpn_model(points, values, xi, method='linear', bounds_error=True, fill_value=float('nan')):
    """reference model of scipy.interpolate.interpn (linear) for a single query point"""
    assert method == 'linear'
    coords = list(xi) if isinstance(xi, (tuple, list)) else list(np.asarray(xi, dtype=object).ravel())
    assert len(coords) == len(points)
    cells = []
    for d, (g, x) in enumerate(zip(points, coords)):
        g = [float(v) for v in g]
        if bool(x < g[0]) or bool(x > g[-1]):
            if bounds_error:
                raise ValueError(f'One of the requested xi is out of bounds in dimension {d}')
            if fill_value is not None:
                return obj([fill_value])
        i = 0
        while i < len(g) - 2 and bool(x >= g[i + 1]):
            i += 1
        t = (x - g[i]) / (g[i + 1] - g[i])
        cells.append((i, t))
    vals = np.asarray(values, dtype=object)
    total = 0.0
    for corner in itertools.product((0, 1), repeat=len(cells)):
        w = 1.0
        idx = []
        for (i, t), c in zip(cells, corner):
            w = w * (t if c else (1.0 - t))
            idx.append(i + c)
        total = total + w * vals[tuple(idx)]
    return obj([total])


def query_path(ex):
    LM, BM = mods()
    from AEIC.performance.types import AircraftState, SimpleFlightRules
    from AEIC.units import METERS_TO_FL
    pm = build_model()
    tabs = inject_symbols(pm)
    phase = choose('phase', PHASES)
    rules = {'climb': SimpleFlightRules.CLIMB, 'cruise': SimpleFlightRules.CRUISE, 'descent': SimpleFlightRules.DESCEND}[phase]
    masskind = choose('mass_kind', ['value', 'min', 'max'])
    alt = sym('altitude', -2000.0, 12000.0)
    mass = sym('mass', 30000.0, 90000.0) if masskind == 'value' else masskind
    state = AircraftState(altitude=alt, aircraft_mass=mass, true_airspeed=sym('state_tas', 0.0, 400.0), rate_of_climb=sym('state_rocd', -50.0, 50.0))
    out = dict(phase=phase, masskind=masskind, alt=alt, mass=mass, tabs=tabs, state=state, pm=pm, res=None, exc=None)
    tr = [(LM, 'interpn', interpn_model)]
    if not ex.concrete:
        tr += [(LM, 'float', sx.float_shadow), (LM, 'np', symnp), (LM, 'min', sx.sym_min), (LM, 'max', sx.sym_max)]
    else:
        tr = []
    with sx.patched(*tr):
        try:
            out['res'] = pm.evaluate(state, rules)
        except Exception as e:
            out['exc'] = e
    return out


def edge_tolerance():
    """flight-level tolerance the implementation applies at the table edges (0 if it has none)"""
    LM, BM = mods()
    for owner in (LM.Interpolator, LM.PerformanceTable, LM):
        for name in ('FL_TOLERANCE', 'FL_EDGE_TOLERANCE', 'FL_TOL'):
            v = getattr(owner, name, None)
            if isinstance(v, (int, float)):
                return float(v)
    return 0.0


def reference(o, tol):
    """independent evaluation: (outside: SymBool/bool, dict var -> value)"""
    from AEIC.units import METERS_TO_FL
    phase = o['phase']
    fls = FLS_BY_PHASE[phase]
    fl = o['alt'] * METERS_TO_FL
    lo, hi = fls[0], fls[-1]
    outside = sx.sym_or(fl < lo - tol, fl > hi + tol)
    fl_eff = sx.ite(fl < lo, lo, sx.ite(fl > hi, hi, fl)) if sx.is_sym(fl) else min(max(fl, lo), hi)
    if phase != 'descent':
        m = o['mass']
        if m == 'min':
            m = MASSES[0]
        elif m == 'max':
            m = MASSES[-1]
        outside = sx.sym_or(outside, m < MASSES[0], m > MASSES[-1])
    else:
        m = None
    return outside, fl_eff, m


def ref_value(tab, phase, fl, m):
    """piecewise bilinear reference written with If-terms (no forks)"""
    fls = FLS_BY_PHASE[phase]

    def lin1(vals_at, x, grid):
        # vals_at(i) -> value at grid[i]; piecewise linear in x over the grid
        res = None
        for i in range(len(grid) - 2, -1, -1):
            t = (x - grid[i]) / (grid[i + 1] - grid[i])
            seg = vals_at(i) * (1.0 - t) + vals_at(i + 1) * t
            res = seg if res is None else sx.ite(x < grid[i + 1], seg, res)
        return res
    if m is None:
        return lin1(lambda i: tab[i], fl, fls)
    return lin1(lambda i: lin1(lambda j: tab[i, j], m, MASSES), fl, fls)


def query_obligations(o, tol, ex):
    from AEIC.performance.types import Performance
    outside, fl_eff, m = reference(o, tol)
    res, exc = o['res'], o['exc']
    if exc is not None:
        yield 'C06.reject.is_value_error', repr(exc), isinstance(exc, ValueError)
        yield 'C06.reject.only_outside_the_phase_envelope', f"{o['phase']} mass={o['masskind']}", outside
        return
    yield 'C06.reject.outside_the_phase_envelope_is_refused', f"{o['phase']} mass={o['masskind']}", sx.sym_not(outside)
    yield 'C06.result.type', '', isinstance(res, Performance)
    tabs = o['tabs'][o['phase']]
    for field, var in (('true_airspeed', 'tas'), ('rate_of_climb', 'rocd'), ('fuel_flow', 'fuel_flow')):
        got = getattr(res, field)
        want = ref_value(tabs[var], o['phase'], fl_eff, m)
        yield f'C06.value.{field}_is_table_interpolation_for_the_phase', f"{o['phase']} mass={o['masskind']}", sx.SymBool(sx.lift(got) == sx.lift(want)) if (sx.is_sym(got) or sx.is_sym(want)) else abs(got - want) <= 1e-9 * (1 + abs(want))
        if sx.is_sym(got) and ex is not None:
            names = {str(v) for v in _var_names(ex, got.t)}
            allowed_prefix = f"{o['phase']}_{var}_"
            bad = [n for n in names if not (n.startswith(allowed_prefix) or n in ('altitude', 'mass'))]
            if o['phase'] == 'descent':
                bad += [n for n in names if n == 'mass']
            yield f'C06.depends_only_on_altitude_mass_phase.{field}', str(bad), not bad


def _var_names(ex, t):
    out = set()
    stack = [t]
    seen = set()
    while stack:
        e = stack.pop()
        if e.get_id() in seen:
            continue
        seen.add(e.get_id())
        if z3.is_const(e) and e.decl().kind() == z3.Z3_OP_UNINTERPRETED:
            out.add(e.decl().name())
        else:
            stack.extend(e.children())
    return out


def node_and_bounds_obligations(ex):
    """properties of the interpolant itself, on the reference formula the code was shown equal to: exact at nodes,
    between the corner values inside a cell (one cell, exact NRA)"""
    v = [[sym(f'v{i}{j}', -1e4, 1e4) for j in range(2)] for i in range(2)]
    tx, ty = sym('tx', 0.0, 1.0), sym('ty', 0.0, 1.0)
    val = (v[0][0] * (1 - tx) + v[1][0] * tx) * (1 - ty) + (v[0][1] * (1 - tx) + v[1][1] * tx) * ty
    lo = sx.sym_min(v[0][0], v[0][1], v[1][0], v[1][1])
    hi = sx.sym_max(v[0][0], v[0][1], v[1][0], v[1][1])
    yield 'C06.interpolant.bounded_by_corner_values', '', sx.sym_and(val >= lo, val <= hi)
    for (a, b) in itertools.product((0, 1), repeat=2):
        yield 'C06.interpolant.exact_at_nodes', f'corner {a}{b}', sx.sym_or(sx.sym_not(sx.sym_and(tx == float(a), ty == float(b))), val == v[a][b])


def run_queries(job):
    ex = sx.Explorer(purify=False, deadline=time.time() + job.get('deadline_s', 300))
    tol = edge_tolerance()
    out = dict(obligations={}, violations=[], samples=[], distinct=set(), unknown=[], tol=tol)
    for p in ex.explore(query_path):
        if p.exc is not None:
            out['violations'].append(dict(obligation='harness', detail=f'{p.exc!r} {(p.tb or "")[-600:]}', values={}, tags={}))
            continue
        o = p.result
        for oid, detail, val in query_obligations(o, tol, ex):
            d = out['obligations'].setdefault(oid, dict(unsat=0, sat=0, unknown=0))
            if isinstance(val, sx.SymBool):
                r, m = ex.prove(val, pc=list(ex.pc), timeout_ms=20000)
            else:
                r, m = ('unsat', None) if val else ex.check(z3.BoolVal(True), pc=list(ex.pc))
                if not val:
                    ex.stats['obl_' + r if r != 'sat' else 'obl_sat'] += 0
            d[r] += 1
            if r == 'unsat':
                out['distinct'].add((oid, detail, tuple(p.trace)))
            elif r == 'sat':
                vals = {k: sx.mval(m, v) for k, v in p.inputs.items()}
                out['violations'].append(dict(obligation=oid, detail=detail, values=vals, tags=dict(phase=o['phase'], mass=o['masskind'], outcome='raised' if o['exc'] is not None else 'returned')))
            else:
                out['unknown'].append(f'{oid} {detail}')
        if len(out['samples']) < 3:
            out['samples'].append(dict(phase=o['phase'], mass=o['masskind'], outcome=repr(o['exc']) if o['exc'] is not None else str(o['res'])[:160]))
    # interpolant facts
    def facts(ex2):
        return list(node_and_bounds_obligations(ex2))
    for p in ex.explore(facts):
        for oid, detail, val in p.result:
            d = out['obligations'].setdefault(oid, dict(unsat=0, sat=0, unknown=0))
            r, m = ex.prove(val, pc=list(ex.pc), timeout_ms=30000)
            d[r] += 1
            if r == 'unknown':
                out['unknown'].append(oid)
            elif r == 'unsat':
                out['distinct'].add((oid, detail))
    out['stats'] = ex.stats
    out['truncated'] = ex.truncated
    out['distinct'] = len(out['distinct'])
    return out


def replay_query(v):
    """the same query on the real model with real scipy: table values and state from the counterexample"""
    run = sx.ConcreteRun(v['values'])
    res, exc = run.run(query_path)
    if exc is not None:
        return False, f'harness raised {exc!r}'
    tol = edge_tolerance()
    bad = [(oid, det) for oid, det, val in query_obligations(res, tol, None) if oid == v['obligation'] and not bool(val)]
    outcome = repr(res['exc']) if res['exc'] is not None else str(res['res'])
    return bool(bad), f"real LegacyPerformanceModel.evaluate with real scipy interpn: outcome={outcome} failing={bad[:2]}"


# ---------------------------------------------------------------------------
# validation of the interpn model against scipy


def validate_interpn():
    from scipy.interpolate import interpn
    rng = np.random.default_rng(0)
    worst = 0.0
    n = 0
    run = sx.ConcreteRun({})
    g1, g2 = np.array([0.0, 100.0, 250.0]), np.array(MASSES)
    v2 = rng.random((3, 3))
    v1 = rng.random(3)
    pts = [(0.0, 50000.0), (250.0, 70000.0), (100.0, 60000.0), (37.5, 55123.0), (100.0, 65000.0), (249.999, 50000.0), (-1.0, 60000.0), (251.0, 60000.0), (50.0, 49999.0), (50.0, 70001.0)]
    for x in pts:
        for pts_, vals, xi in (((g1, g2), v2, x), ((g1,), v1, np.array([x[0]]))):
            try:
                want = float(interpn(pts_, vals, xi, method='linear')[0])
            except ValueError:
                want = 'ValueError'
            got, exc = run.run(lambda ex: interpn_model(pts_, vals, xi))
            got = 'ValueError' if isinstance(exc, ValueError) else float(np.asarray(got, dtype=float)[0])
            n += 1
            if want == 'ValueError' or got == 'ValueError':
                if want != got:
                    worst = float('inf')
            else:
                worst = max(worst, abs(want - got))
    return n, worst


# ---------------------------------------------------------------------------
# E2: the conversion kernel in IEEE double


def fp_roundtrip(tol, fl_max=600, timeout_ms=120000):
    """exists integer FL in [0, fl_max] with |(FL*FL_TO_METERS)*METERS_TO_FL - FL| > tol ?  -> (result, witness FL, seconds)"""
    from AEIC.units import FL_TO_METERS, METERS_TO_FL
    t0 = time.time()
    s = z3.SolverFor('QF_FPBV') if hasattr(z3, 'SolverFor') else z3.Solver()
    s.set('timeout', timeout_ms)
    F = z3.Float64()
    rm = z3.RNE()
    n = z3.BitVec('FL', 12)
    s.add(z3.ULE(n, fl_max))
    x = z3.fpUnsignedToFP(rm, n, F)
    alt = z3.fpMul(rm, x, z3.FPVal(FL_TO_METERS, F))
    fl2 = z3.fpMul(rm, alt, z3.FPVal(METERS_TO_FL, F))
    diff = z3.fpAbs(z3.fpSub(rm, fl2, x))
    s.add(z3.fpGT(diff, z3.FPVal(tol, F)))
    r = s.check()
    w = s.model()[n].as_long() if r == z3.sat else None
    return str(r), w, time.time() - t0


def fp_roundtrip_cvc5(tol, fl_max=600):
    """second opinion with cvc5 (same query in SMT-LIB)"""
    import cvc5
    from cvc5 import Kind
    from AEIC.units import FL_TO_METERS, METERS_TO_FL
    import struct
    t0 = time.time()
    tm = cvc5.TermManager() if hasattr(cvc5, 'TermManager') else None
    slv = cvc5.Solver(tm) if tm else cvc5.Solver()
    mk = tm if tm else slv
    slv.setLogic('QF_FPBV')
    slv.setOption('produce-models', 'true')
    slv.setOption('tlimit-per', '120000')
    f64 = mk.mkFloatingPointSort(11, 53)
    bv12 = mk.mkBitVectorSort(12)
    rne = mk.mkRoundingMode(cvc5.RoundingMode.ROUND_NEAREST_TIES_TO_EVEN)

    def fpconst(v):
        bits = struct.unpack('>Q', struct.pack('>d', float(v)))[0]
        return mk.mkFloatingPoint(11, 53, mk.mkBitVector(64, bits))
    n = mk.mkConst(bv12, 'FL')
    slv.assertFormula(mk.mkTerm(Kind.BITVECTOR_ULE, n, mk.mkBitVector(12, fl_max)))
    x = mk.mkTerm(mk.mkOp(Kind.FLOATINGPOINT_TO_FP_FROM_UBV, 11, 53), rne, n)
    alt = mk.mkTerm(Kind.FLOATINGPOINT_MULT, rne, x, fpconst(FL_TO_METERS))
    fl2 = mk.mkTerm(Kind.FLOATINGPOINT_MULT, rne, alt, fpconst(METERS_TO_FL))
    diff = mk.mkTerm(Kind.FLOATINGPOINT_ABS, mk.mkTerm(Kind.FLOATINGPOINT_SUB, rne, fl2, x))
    slv.assertFormula(mk.mkTerm(Kind.FLOATINGPOINT_GT, diff, fpconst(tol)))
    r = slv.checkSat()
    res = 'sat' if r.isSat() else 'unsat' if r.isUnsat() else 'unknown'
    w = int(slv.getValue(n).getBitVectorValue(10)) if res == 'sat' else None
    return res, w, time.time() - t0


def replay_top_level(fl_witness):
    """a real model whose top tabulated level is the witness FL, queried at FL*FL_TO_METERS in every phase"""
    LM, BM = mods()
    from AEIC.performance.types import AircraftState, SimpleFlightRules
    from AEIC.types import AircraftClass
    from AEIC.units import FL_TO_METERS
    top = float(fl_witness)
    fls = [0.0, top / 2 if top > 1 else 0.5, top] if top > 0 else [0.0, 1.0]
    rows = []
    for fl in fls:
        for k, m in enumerate(MASSES):
            rows.append([fl, m, 100.0 + fl / 10, 12.0 - k, 1.0 + fl / 1000])
            rows.append([fl, m, 150.0 + fl / 10, 0.0, 0.5 + k / 10 + fl / 1000])
        rows.append([fl, MASSES[1], 120.0 + fl / 10, -8.0, 0.2 + fl / 1000])
    pm = LM.LegacyPerformanceModel(model_type='legacy', aircraft_name='SYM', aircraft_class=list(AircraftClass)[0], maximum_altitude_ft=41000, maximum_payload_kg=20000,
                                   number_of_engines=2, speeds=None, lto_performance=None,
                                   flight_performance=LM.PerformanceTableInput(cols=['fl', 'mass', 'tas', 'rocd', 'fuel_flow'], data=rows))
    problems = []
    for rules, want_tas in ((SimpleFlightRules.CLIMB, 100.0 + top / 10), (SimpleFlightRules.CRUISE, 150.0 + top / 10), (SimpleFlightRules.DESCEND, 120.0 + top / 10)):
        try:
            perf = pm.evaluate(AircraftState(altitude=top * FL_TO_METERS, aircraft_mass=MASSES[1]), rules)
            if abs(perf.true_airspeed - want_tas) > 1e-6 * want_tas:
                problems.append(f'{rules.value}: TAS {perf.true_airspeed} at tabulated FL{int(top)} given in metres, table value {want_tas}')
        except Exception as e:  # noqa
            problems.append(f'{rules.value}: evaluate(altitude=FL{int(top)}*FL_TO_METERS) raised {type(e).__name__}: {e}')
    return problems


# ---------------------------------------------------------------------------
# build_performance_table from (symbolic) PTF rows


def load_build_performance_table():
    """the function object compiled from the current source, without importing the command module (whose import
    loads the global configuration)"""
    import ast
    from pathlib import Path
    from typing import Any
    import AEIC
    src = (Path(AEIC.__file__).parent / 'commands' / 'make_performance_model.py').read_text()
    tree = ast.parse(src)
    fn = [n for n in tree.body if isinstance(n, ast.FunctionDef) and n.name == 'build_performance_table'][0]
    mod = ast.Module(body=[fn], type_ignores=[])
    ns = {'Any': Any, 'PTFData': object}
    exec(compile(mod, 'make_performance_model.py', 'exec'), ns)
    import hashlib
    return ns['build_performance_table'], hashlib.sha1(ast.unparse(fn).encode()).hexdigest()[:10]


def ptf_path(ex):
    from types import SimpleNamespace as NS
    fn, _ = load_build_performance_table()
    fls = {'climb': [0, 100], 'cruise': [100, 200], 'descent': [0, 100]}
    masses = dict(low=50000, nom=60000, high=70000)
    ptf = NS(low_mass=masses['low'], nominal_mass=masses['nom'], high_mass=masses['high'], climb=[], cruise=[], descent=[])
    for fl in fls['climb']:
        ptf.climb.append(NS(fl=fl, tas=sym(f'cl{fl}_tas', 1.0, 400.0), rocd_low=sym(f'cl{fl}_rl', 0.1, 50.0), rocd_nom=sym(f'cl{fl}_rn', 0.1, 50.0), rocd_high=sym(f'cl{fl}_rh', 0.1, 50.0), fuel_flow_nom=sym(f'cl{fl}_ff', 0.0, 10.0)))
    for fl in fls['cruise']:
        ptf.cruise.append(NS(fl=fl, tas=sym(f'cr{fl}_tas', 1.0, 400.0), fuel_flow_low=sym(f'cr{fl}_fl', 0.0, 10.0), fuel_flow_nom=sym(f'cr{fl}_fn', 0.0, 10.0), fuel_flow_high=sym(f'cr{fl}_fh', 0.0, 10.0)))
    for fl in fls['descent']:
        ptf.descent.append(NS(fl=fl, tas=sym(f'de{fl}_tas', 1.0, 400.0), rocd_nom=sym(f'de{fl}_rn', -50.0, -0.1), fuel_flow_nom=sym(f'de{fl}_ff', 0.0, 10.0)))
    out = fn(ptf)
    return dict(ptf=ptf, out=out)


def ptf_obligations(o):
    ptf, out = o['ptf'], o['out']
    yield 'C06.ptf.columns', str(out.get('cols')), out.get('cols') == ['fl', 'mass', 'tas', 'rocd', 'fuel_flow']
    want = []
    for r in ptf.climb:
        want += [[r.fl, ptf.low_mass, r.tas, r.rocd_low, r.fuel_flow_nom], [r.fl, ptf.nominal_mass, r.tas, r.rocd_nom, r.fuel_flow_nom], [r.fl, ptf.high_mass, r.tas, r.rocd_high, r.fuel_flow_nom]]
    for r in ptf.cruise:
        want += [[r.fl, ptf.low_mass, r.tas, 0.0, r.fuel_flow_low], [r.fl, ptf.nominal_mass, r.tas, 0.0, r.fuel_flow_nom], [r.fl, ptf.high_mass, r.tas, 0.0, r.fuel_flow_high]]
    for r in ptf.descent:
        want += [[r.fl, ptf.nominal_mass, r.tas, r.rocd_nom, r.fuel_flow_nom]]
    got = out['data']
    yield 'C06.ptf.number_of_rows', f'{len(got)} vs {len(want)}', len(got) == len(want)
    # every intended row appears exactly once (rows matched on their concrete coordinates and the sign class of ROCD)
    def eqv(a, b):
        if sx.is_sym(a) or sx.is_sym(b):
            return sx.SymBool(sx.lift(a) == sx.lift(b))
        return a == b
    for w in want:
        matches = [sx.sym_and(*[eqv(g[i], w[i]) for i in range(5)]) for g in got if len(g) == 5 and g[0] == w[0] and g[1] == w[1]]
        yield 'C06.ptf.every_row_reproduced', f'fl={w[0]} mass={w[1]}', sx.sym_or(*matches) if matches else False
    for g in got:
        matches = [sx.sym_and(*[eqv(g[i], w[i]) for i in range(5)]) for w in want if g[0] == w[0] and g[1] == w[1]]
        yield 'C06.ptf.no_row_invented', f'fl={g[0]} mass={g[1]}', sx.sym_or(*matches) if matches else False


def run_ptf(job):
    ex = sx.Explorer(purify=False, deadline=time.time() + job.get('deadline_s', 120))
    out = dict(obligations={}, violations=[], samples=[], distinct=set(), unknown=[])
    for p in ex.explore(ptf_path):
        if p.exc is not None:
            out['violations'].append(dict(obligation='harness', detail=f'{p.exc!r} {(p.tb or "")[-600:]}', values={}, tags={}))
            continue
        for oid, detail, val in ptf_obligations(p.result):
            d = out['obligations'].setdefault(oid, dict(unsat=0, sat=0, unknown=0))
            if isinstance(val, sx.SymBool):
                r, m = ex.prove(val, pc=list(ex.pc))
            else:
                r, m = ('unsat', None) if val else ex.check(z3.BoolVal(True), pc=list(ex.pc))
            d[r] += 1
            if r == 'unsat':
                out['distinct'].add((oid, detail))
            elif r == 'sat':
                out['violations'].append(dict(obligation=oid, detail=detail, values={k: sx.mval(m, v) for k, v in p.inputs.items()}, tags=dict(part='ptf')))
            else:
                out['unknown'].append(oid)
        if len(out['samples']) < 1:
            out['samples'].append(dict(rows=len(p.result['out']['data'])))
    out['stats'] = ex.stats
    out['truncated'] = ex.truncated
    out['distinct'] = len(out['distinct'])
    return out


def replay_ptf(v):
    run = sx.ConcreteRun(v['values'])
    res, exc = run.run(ptf_path)
    if exc is not None:
        return False, f'harness raised {exc!r}'
    bad = [(oid, det) for oid, det, val in ptf_obligations(res) if oid == v['obligation'] and not bool(val)]
    return bool(bad), f'real build_performance_table on concrete PTF rows: failing {bad[:2]}'
