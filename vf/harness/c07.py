"""C07: the trajectory store as an append-only list.

(a) kernel, decided by z3 for all sizes: the real `_load_trajectory(index)` runs with solver integers for the index, the
    number of trajectories at open time, the number added in the session and (merged stores) the per-file sizes, on
    hand-built file records whose variables report the position they are read at; the position read must be the
    position `add` wrote for that index (negative positions normalised against the file's CURRENT length, as netCDF does).
(b) histories, exhaustive up to L operations: every sequence of add / read / len / iterate / sync / reopen-for-append /
    reopen-for-read (operation codes are solver variables enumerated by the explorer) is executed on the real store over
    the netCDF4 model and compared with a Python list.
"""
from __future__ import annotations

import time

import z3

import vf.symex as sx
from vf.symex import choose, cur, symint
from vf.harness import store as S


class Probe(Exception):
    def __init__(self, file_index, position):
        self.file_index, self.position = file_index, position


class ProbeVar:
    def __init__(self, k):
        self.k = k


class ProbeGroup:
    def __init__(self, k, names):
        self.k = k
        self.variables = {n: ProbeVar(k) for n in names}


def kernel_path(kind):
    """kind: 'read_single' | 'append_single' | 'merged'"""
    def fn(ex):
        ST, FS, TR = S.mods()
        ts = ST.TrajectoryStore.__new__(ST.TrajectoryStore)
        fs = FS.FieldSet.from_registry(TR.BASE_FIELDSET_NAME)
        names = list(fs.keys())
        index = symint('index', 0, 60)
        out = dict(kind=kind, index=index)
        if kind == 'merged':
            nfiles = choose('n_files', [2, 3, 4])
            sizes = [symint(f'size{k}', 1, 12) for k in range(nfiles)]     # a part file exists only after its first add
            cum, acc = [], 0
            for s_ in sizes:
                acc = acc + s_
                cum.append(acc)
            cur_len = list(sizes)
            size_index = cum
            out.update(sizes=sizes, cum=cum, total=acc)
        else:
            n_open = symint('n_at_open', 1, 20)      # a file exists only after the first add
            added = symint('added_in_session', 0, 20) if kind == 'append_single' else 0
            nfiles = 1
            cur_len = [n_open + added]
            size_index = [n_open]           # what _open_nc_file records when the file is opened
            out.update(n_open=n_open, added=added, total=n_open + added)
        groups = {TR.BASE_FIELDSET_NAME: [ProbeGroup(k, names) for k in range(nfiles)]}
        nc = ST.TrajectoryStore.NcFiles(path=[None] * nfiles, fieldsets={TR.BASE_FIELDSET_NAME}, dataset=[None] * nfiles,
                                        traj_dim=[_Dim(l) for l in cur_len], traj_var=[None] * nfiles, species=None, groups=groups, size_index=size_index)
        ts._nc = {TR.BASE_FIELDSET_NAME: nc}
        ts._nc_files = [nc]

        def probe_read(self, var, idx, name, field, species):
            raise Probe(var.k, idx)
        import builtins

        def sym_len(x):
            return x.n if isinstance(x, _Dim) else builtins.len(x)
        try:
            with sx.patched((ST.TrajectoryStore, '_read_from_nc_var', probe_read), (ST, 'len', sym_len)):
                ts._load_trajectory(index)
            out['result'] = 'not_loaded'
        except Probe as p:
            out['result'] = 'read'
            out['file'], out['pos'] = p.file_index, p.position
            out['cur_len'] = cur_len
        return out
    return fn


class _Dim:
    def __init__(self, n):
        self.n = n

    def __len__(self):
        return int(self.n)


def kernel_obligations(o):
    index, total = o['index'], o['total']
    inside = index < total
    if o['result'] == 'not_loaded':
        yield 'C07.kernel.every_index_below_length_is_loaded', o['kind'], sx.sym_not(inside)
        return
    yield 'C07.kernel.index_beyond_end_is_not_loaded', o['kind'], inside
    k, pos = o['file'], o['pos']
    ln = o['cur_len'][k]
    # netCDF normalises a negative position against the variable's current length
    phys = sx.ite(pos < 0, pos + ln, pos) if isinstance(pos < 0, sx.SymBool) else (pos + ln if pos < 0 else pos)
    if o['kind'] == 'merged':
        before = o['cum'][k - 1] if k > 0 else 0
        yield 'C07.kernel.merged.file_contains_the_index', f'file {k}', sx.sym_and(index >= before, index < o['cum'][k])
        yield 'C07.kernel.merged.position_is_offset_within_file', f'file {k}', phys == index - before
    else:
        yield 'C07.kernel.position_read_is_position_written', o['kind'], sx.sym_and(k == 0, phys == index)
    yield 'C07.kernel.position_inside_file', o['kind'], sx.sym_and(phys >= 0, phys < ln)


def run_kernel(job):
    ex = sx.Explorer(purify=False, deadline=time.time() + job.get('deadline_s', 120))
    out = dict(obligations={}, violations=[], samples=[], distinct=set(), unknown=[])
    for kind in ('read_single', 'append_single', 'merged'):
        for p in ex.explore(kernel_path(kind)):
            if p.exc is not None:
                out['violations'].append(dict(obligation='harness', detail=f'{kind}: {p.exc!r} {(p.tb or "")[-500:]}', values={}, tags={}))
                continue
            o = p.result
            for oid, detail, val in kernel_obligations(o):
                d = out['obligations'].setdefault(oid, dict(unsat=0, sat=0, unknown=0))
                if isinstance(val, sx.SymBool):
                    r, m = ex.prove(val, pc=list(ex.pc))
                else:
                    r, m = ('unsat', None) if val else ex.check(z3.BoolVal(True), pc=list(ex.pc))
                d[r] += 1
                if r == 'unsat':
                    out['distinct'].add((oid, kind, tuple(p.trace)))
                elif r == 'sat':
                    vals = {k: sx.mval(m, v) for k, v in p.inputs.items()}
                    out['violations'].append(dict(obligation=oid, detail=f'{detail} result={o["result"]}', values=vals, tags=dict(session=kind)))
                else:
                    out['unknown'].append(oid)
            if len(out['samples']) < 3:
                out['samples'].append(dict(kind=kind, result=o['result'], path_condition=[str(c)[:70] for c in p.pc[-3:]]))
    out['stats'] = ex.stats
    out['truncated'] = ex.truncated
    out['distinct'] = len(out['distinct'])
    return out


def replay_kernel(v, backend_kind='real'):
    """the model's sizes on the real store (real netCDF4): open with n_at_open trajectories, add `added`, read `index`"""
    ST, FS, TR = S.mods()
    vals = v['values']
    kind = v['tags']['session']
    with S.backend(backend_kind), S.Scratch('c07k') as d:
        if kind == 'merged':
            sizes = [int(vals[k]) for k in sorted(vals) if k.startswith('size')]
            paths, tags, t = [], [], 1
            for k, n in enumerate(sizes):
                pth = d / f'part{k}.nc'
                with ST.TrajectoryStore.create(base_file=pth) as ts:
                    for _ in range(n):
                        ts.add(S.make_traj(t))
                        tags.append(t)
                        t += 1
                    if n == 0:
                        pass
                paths.append(pth)
            if any(n == 0 for n in sizes):
                return False, 'model has an empty part: a store file is only created by its first add, not constructible through the API'
            ST.TrajectoryStore.merge(input_stores=paths, output_store=d / 'm.aeic-store')
            ts = ST.TrajectoryStore.open(base_file=d / 'm.aeic-store')
        else:
            n_open, added = int(vals.get('n_at_open', 0)), int(vals.get('added_in_session', 0))
            if n_open == 0:
                return False, 'model opens an empty file: not constructible through the API (a file is created by the first add)'
            pth = d / 'a.nc'
            tags = []
            with ST.TrajectoryStore.create(base_file=pth) as ts:
                for t in range(1, n_open + 1):
                    ts.add(S.make_traj(t))
                    tags.append(t)
            if kind == 'append_single':
                ts = ST.TrajectoryStore.append(base_file=pth, cache_size_mb=1)
                for t in range(n_open + 1, n_open + added + 1):
                    ts.add(S.make_traj(t))
                    tags.append(t)
                ts._trajectories.clear()           # what an eviction does: later reads come from the file
            else:
                ts = ST.TrajectoryStore.open(base_file=pth)
        idx = int(vals['index'])
        try:
            got = ts[idx]
            res = S.tag_of(got)
        except IndexError:
            res = 'IndexError'
        except Exception as e:  # noqa
            res = repr(e)
        finally:
            ts.close()
        want = tags[idx] if idx < len(tags) else 'IndexError'
        return res != want, f'{kind}: store of {len(tags)} trajectories, index {idx}: got {res}, expected {want}'


# ---------------------------------------------------------------------------
# (b) histories


OPS = ['add', 'get', 'len', 'iter', 'sync', 'reopen_append', 'reopen_read']
BIG = 600 * 1024        # with a 1 MB cache only one such trajectory fits: every second access evicts
HUGE = 3 * 1024 * 1024  # larger than the whole 1 MB cache: cannot be cached at all
SIZES = {}              # tag -> reported size in bytes (set per history)


def _nbytes(traj):
    try:
        return SIZES.get(S.tag_of(traj), 1000)
    except Exception:
        return 1000


def history_path(L, first_ops=None, backend_kind='fake', job_huge=False, start='empty'):
    """start: 'empty' (a store just created), or 'read3' / 'append3' (a file-backed store that already holds three
    trajectories, reopened for reading / appending): the bounded history then begins in a state that itself takes five
    operations to reach"""
    def fn(ex):
        ST, FS, TR = S.mods()
        small_cache = choose('small_cache', [True, False])
        in_memory = choose('in_memory', [False, True])
        problems = []
        hist = []
        SIZES.clear()
        ST_, FS_, TR_ = S.mods()
        with S.backend(backend_kind), sx.patched((TR_.Trajectory, 'nbytes', property(_nbytes))), S.Scratch('c07h') as d:
            path = None if in_memory else d / 's.nc'
            csz = 1 if small_cache else 2048
            ts = ST.TrajectoryStore.create(base_file=path, cache_size_mb=csz)
            mode = 'w'
            model = []
            nxt = 1
            if start != 'empty' and not in_memory:
                for _ in range(3):
                    SIZES[nxt] = 1000
                    ts.add(S.make_traj(nxt))
                    model.append(nxt)
                    nxt += 1
                ts.close()
                hist.append(f'[{start}: 3 trajectories on file]')
                if start == 'read3':
                    ts, mode = ST.TrajectoryStore.open(base_file=path, cache_size_mb=csz), 'r'
                else:
                    ts, mode = ST.TrajectoryStore.append(base_file=path, cache_size_mb=csz), 'a'
            try:
                for step in range(L):
                    op = choose(f'op{step}', OPS if not (first_ops and step < len(first_ops)) else [first_ops[step]])
                    if in_memory and op in ('reopen_append', 'reopen_read', 'sync'):
                        op = 'len'
                    if op == 'add':
                        tr = S.make_traj(nxt)
                        size = choose(f'size{step}', ['small', 'big'] + (['huge'] if job_huge else [])) if small_cache else 'small'
                        SIZES[nxt] = {'small': 1000, 'big': BIG, 'huge': HUGE}[size]
                        try:
                            idx = ts.add(tr)
                            if mode == 'r':
                                problems.append((step, 'add accepted by a store opened for reading'))
                            if idx != len(model):
                                problems.append((step, f'add returned index {idx}, expected {len(model)}'))
                            model.append(nxt)
                            hist.append(f'add->{idx}')
                        except RuntimeError as e:
                            hist.append(f'add({size}) refused: {type(e).__name__}')
                            ok = (mode == 'r') or (in_memory and small_cache and isinstance(e, ST.TrajectoryCache.EvictionOccurred))
                            if not ok:
                                problems.append((step, f'add refused with {e!r}'))
                        except ValueError as e:
                            hist.append(f'add({size}) refused: ValueError')
                            if not (size == 'huge' and 'too large' in str(e)):
                                problems.append((step, f'add refused with {e!r}'))
                        nxt += 1
                    elif op == 'get':
                        i = choose(f'i{step}', list(range(0, len(model) + 1)))
                        try:
                            got = ts[i]
                            hist.append(f'get({i})')
                            if i >= len(model):
                                problems.append((step, f'index {i} beyond the end returned a trajectory'))
                            elif not S.check_payload(got, model[i]):
                                problems.append((step, f'index {i} returned trajectory {S.tag_of(got)}, expected {model[i]}'))
                        except IndexError:
                            hist.append(f'get({i}) IndexError')
                            if i < len(model):
                                problems.append((step, f'index {i} < length {len(model)} reported out of range'))
                    elif op == 'len':
                        hist.append('len')
                        if len(ts) != len(model):
                            problems.append((step, f'len {len(ts)} != {len(model)}'))
                    elif op == 'iter':
                        hist.append('iter')
                        got = [S.tag_of(t) for t in ts]
                        if got != model:
                            problems.append((step, f'iteration gave {got}, expected {model}'))
                    elif op == 'sync':
                        hist.append('sync')
                        if mode != 'r':
                            ts.sync()
                    else:
                        hist.append(op)
                        if not model:
                            continue            # a file exists only after the first add
                        ts.close()
                        if op == 'reopen_append':
                            ts = ST.TrajectoryStore.append(base_file=path, cache_size_mb=csz)
                            mode = 'a'
                        else:
                            ts = ST.TrajectoryStore.open(base_file=path, cache_size_mb=csz)
                            mode = 'r'
                # final observation: everything readable in order
                if len(ts) != len(model):
                    problems.append(('end', f'len {len(ts)} != {len(model)}'))
                for i, tg in enumerate(model):
                    try:
                        if not S.check_payload(ts[i], tg):
                            problems.append(('end', f'index {i} returned trajectory {S.tag_of(ts[i])}, expected {tg}'))
                    except Exception as e:  # noqa
                        problems.append(('end', f'index {i}: {type(e).__name__}: {e}'))
            except Exception as e:  # unexpected exception of the store
                import traceback
                problems.append(('exception', f'{type(e).__name__}: {e} :: {traceback.format_exc()[-300:]}'))
            finally:
                try:
                    ts.close()
                except Exception as e:  # noqa
                    problems.append(('close', f'{type(e).__name__}: {e}'))
        return dict(history=hist, problems=problems, small_cache=small_cache, in_memory=in_memory)
    return fn


def run_histories(job):
    ex = sx.Explorer(purify=False, deadline=time.time() + job.get('deadline_s', 600), max_paths=10 ** 7)
    out = dict(obligations={}, violations=[], samples=[], distinct=set(), unknown=[], paths=0)
    oid = 'C07.history.store_behaves_as_list'
    d = out['obligations'].setdefault(oid, dict(unsat=0, sat=0, unknown=0))
    for p in ex.explore(history_path(job['L'], job.get('first_ops'), job_huge=job.get('huge', False), start=job.get('start', 'empty'))):
        if p.exc is not None:
            out['violations'].append(dict(obligation='harness', detail=f'{p.exc!r} {(p.tb or "")[-500:]}', values={}, tags={}))
            continue
        o = p.result
        out['paths'] += 1
        if o['problems']:
            d['sat'] += 1
            r, m = ex.check(z3.BoolVal(True), pc=list(ex.pc))
            vals = {k: sx.mval(m, v) for k, v in p.inputs.items()} if r == 'sat' else {}
            kinds = sorted({_problem_kind(pr) for _, pr in o['problems']})
            out['violations'].append(dict(obligation=oid, detail=f"history {o['history']}: {o['problems'][:2]}", values=vals,
                                          tags=dict(problem=kinds[0], session=_session_kind(o['history']), small_cache=o['small_cache'], in_memory=o['in_memory']), history=o['history']))
        else:
            d['unsat'] += 1
            out['distinct'].add(tuple(o['history']) + (o['small_cache'], o['in_memory']))
        if len(out['samples']) < 3 and len(o['history']) == job['L']:
            out['samples'].append(dict(history=o['history'], small_cache=o['small_cache'], in_memory=o['in_memory']))
    out['stats'] = ex.stats
    out['truncated'] = ex.truncated
    out['distinct'] = len(out['distinct'])
    return out


def _problem_kind(pr):
    if 'returned trajectory' in pr:
        return 'wrong trajectory returned'
    if 'out of range' in pr:
        return 'valid index reported out of range'
    if 'len ' in pr:
        return 'wrong length'
    if 'iteration' in pr:
        return 'wrong iteration'
    return pr.split(':')[0][:40]


def _session_kind(hist):
    return 'append' if 'reopen_append' in hist else ('read' if 'reopen_read' in hist else 'create')


def replay_history(v, L, first_ops=None, huge=False, start='empty'):
    """the same operation sequence on the real netCDF4-backed store"""
    run = sx.ConcreteRun(v['values'])
    res, exc = run.run(history_path(L, first_ops, backend_kind='real', job_huge=huge, start=start))
    if exc is not None:
        return False, f'harness raised {exc!r}'
    return bool(res['problems']), f"real netCDF4: history {res['history']} -> {res['problems'][:2]}"
