"""C08: lookup by flight identifier with solver-integer identifiers (all insertion orders are covered by the forks
of sorted()/bisect on symbolic comparisons), across sessions, reopen and merged stores; mixed identification refused."""
from __future__ import annotations

import time

import numpy as np
import z3

import vf.symex as sx
from vf.symex import choose, cur, symint
from vf.harness import store as S

SCENARIOS = ['create_lookup_before_sync', 'create_sync_lookup', 'create_lookup_add_lookup', 'reopen_read', 'append_session', 'append_then_reopen', 'merged_two_parts']


def _patches(backend_kind):
    ST, FS, TR = S.mods()
    orig_cast = FS.FieldMetadata._cast

    def _cast(self, v, name):
        if sx.is_sym(v):
            return v
        return orig_cast(self, v, name)
    return sx.patched((FS.FieldMetadata, '_cast', _cast))


def ids_path(n, scenarios=None, backend_kind='fake'):
    def fn(ex):
        ST, FS, TR = S.mods()
        scen = choose('scenario', scenarios or SCENARIOS)
        ids = [symint(f'id{k}', 0, 10 ** 6) for k in range(n)]
        absent = symint('absent_id', 0, 10 ** 6)
        if not ex.concrete:
            for a in range(n):
                ex.assume(absent != ids[a])
                for b in range(a + 1, n):
                    ex.assume(ids[a] != ids[b])
        else:
            if len(set(ids)) != n or absent in ids:
                return dict(scenario=scen, problems=[], log=['replay values not distinct'], skipped=True)
        problems, log = [], []

        def look(ts, known, when):
            for k in known:
                try:
                    t = ts.get_flight(ids[k])
                except Exception as e:  # noqa
                    problems.append(f'{when}: get_flight(id{k}) raised {type(e).__name__}: {e}')
                    continue
                if t is None:
                    problems.append(f'{when}: identifier of trajectory {k} not found')
                elif not S.check_payload(t, k + 1):
                    problems.append(f'{when}: identifier of trajectory {k} returned trajectory {S.tag_of(t) - 1}')
            try:
                t = ts.get_flight(absent)
                if t is not None:
                    problems.append(f'{when}: an identifier never added returned trajectory {S.tag_of(t) - 1}')
            except Exception as e:  # noqa
                problems.append(f'{when}: get_flight(absent) raised {type(e).__name__}: {e}')
            log.append(when)
        with S.backend(backend_kind), _patches(backend_kind), S.Scratch('c08') as d:
            try:
                pth = d / 'a.nc'
                mk = lambda k: S.make_traj(k + 1, flight_id=ids[k])   # noqa
                if scen == 'merged_two_parts':
                    split = choose('split', list(range(1, n)))
                    p1, p2 = d / 'p1.nc', d / 'p2.nc'
                    with ST.TrajectoryStore.create(base_file=p1) as ts:
                        for k in range(split):
                            ts.add(mk(k))
                    with ST.TrajectoryStore.create(base_file=p2) as ts:
                        for k in range(split, n):
                            ts.add(mk(k))
                    ST.TrajectoryStore.merge(input_stores=[p1, p2], output_store=d / 'm.aeic-store')
                    with ST.TrajectoryStore.open(base_file=d / 'm.aeic-store') as ts:
                        look(ts, range(n), 'merged store')
                        for k in range(n):
                            if not S.check_payload(ts[k], k + 1):
                                problems.append(f'merged store: index {k} returned trajectory {S.tag_of(ts[k]) - 1}')
                else:
                    ts = ST.TrajectoryStore.create(base_file=pth)
                    first = n if scen in ('create_lookup_before_sync', 'create_sync_lookup', 'reopen_read') else max(1, n - 1)
                    for k in range(first):
                        ts.add(mk(k))
                    if scen == 'create_lookup_before_sync':
                        look(ts, range(first), 'create session, no sync')
                    elif scen == 'create_sync_lookup':
                        ts.sync()
                        look(ts, range(first), 'create session, after sync')
                    elif scen == 'create_lookup_add_lookup':
                        look(ts, range(first), 'create session, first lookups')
                        for k in range(first, n):
                            ts.add(mk(k))
                        if choose('sync_between', [False, True]):
                            ts.sync()
                        look(ts, range(n), 'create session, lookups after further adds')
                    ts.close()
                    if scen == 'reopen_read':
                        with ST.TrajectoryStore.open(base_file=pth) as ts:
                            look(ts, range(n), 'reopened for reading')
                    elif scen in ('append_session', 'append_then_reopen'):
                        ts = ST.TrajectoryStore.append(base_file=pth)
                        look(ts, range(first), 'append session, before adds')
                        for k in range(first, n):
                            ts.add(mk(k))
                        look(ts, range(n), 'append session, after adds (no sync)')
                        ts.close()
                        if scen == 'append_then_reopen':
                            with ST.TrajectoryStore.open(base_file=pth) as ts:
                                look(ts, range(n), 'reopened after append session')
            except Exception as e:  # noqa
                import traceback
                problems.append(f'{scen}: unexpected {type(e).__name__}: {e} :: {traceback.format_exc()[-400:]}')
        return dict(scenario=scen, problems=problems, log=log)
    return fn


def mixed_path(backend_kind='fake'):
    """a store is either fully identified or not at all: the other kind of trajectory is refused, in every session kind,
    and the store stays usable"""
    def fn(ex):
        ST, FS, TR = S.mods()
        first_identified = choose('first_identified', [True, False])
        session = choose('session', ['create', 'append'])
        problems = []
        with S.backend(backend_kind), S.Scratch('c08m') as d:
            pth = d / 'a.nc'
            try:
                ts = ST.TrajectoryStore.create(base_file=pth)
                ts.add(S.make_traj(1, flight_id=101 if first_identified else None))
                if session == 'append':
                    ts.close()
                    ts = ST.TrajectoryStore.append(base_file=pth)
                try:
                    ts.add(S.make_traj(2, flight_id=None if first_identified else 202))
                    problems.append(f'{session} session on an {"identified" if first_identified else "unidentified"} store accepted the other kind of trajectory')
                except ValueError:
                    pass
                # the store is still consistent and usable
                ts.add(S.make_traj(3, flight_id=303 if first_identified else None))
                if first_identified:
                    t = ts.get_flight(303)
                    if t is None or S.tag_of(t) != 3:
                        problems.append('lookup after a refused add failed')
                ts.close()
                with ST.TrajectoryStore.open(base_file=pth) as ts2:
                    tags = [S.tag_of(t) for t in ts2]
                    if tags != [1, 3]:
                        problems.append(f'after the refused add the store holds {tags}, expected [1, 3]')
            except Exception as e:  # noqa
                import traceback
                problems.append(f'unexpected {type(e).__name__}: {e} :: {traceback.format_exc()[-300:]}')
        return dict(scenario=f'mixed/{session}/{"identified" if first_identified else "unidentified"} first', problems=problems, log=[])
    return fn


def run(job):
    ex = sx.Explorer(purify=False, deadline=time.time() + job.get('deadline_s', 600), max_paths=10 ** 6)
    out = dict(obligations={}, violations=[], samples=[], distinct=set(), unknown=[])
    fn = mixed_path() if job['kind'] == 'mixed' else ids_path(job['n'], job.get('scenarios'))
    oid = 'C08.mixed_identification_refused' if job['kind'] == 'mixed' else 'C08.lookup_returns_the_trajectory_added_with_that_identifier'
    d = out['obligations'].setdefault(oid, dict(unsat=0, sat=0, unknown=0))
    for p in ex.explore(fn):
        if p.exc is not None:
            out['violations'].append(dict(obligation='harness', detail=f'{p.exc!r} {(p.tb or "")[-600:]}', values={}, tags={}))
            continue
        o = p.result
        if o['problems']:
            r, m = ex.check(z3.BoolVal(True), pc=list(ex.pc))
            if r == 'sat':
                d['sat'] += 1
                vals = {k: sx.mval(m, v) for k, v in p.inputs.items()}
                out['violations'].append(dict(obligation=oid, detail=f"{o['scenario']}: {o['problems'][:2]}", values=vals, tags=dict(scenario=o['scenario'], problem=o['problems'][0].split(':')[0][:50])))
            elif r == 'unsat':
                d['unsat'] += 1
            else:
                d['unknown'] += 1
                out['unknown'].append(oid)
        else:
            d['unsat'] += 1
            out['distinct'].add((o['scenario'], tuple(p.trace)))
        if len(out['samples']) < 2:
            out['samples'].append(dict(scenario=o['scenario'], lookups=o['log'], ordering_constraints=[str(c)[:50] for c in p.pc[-4:]]))
    out['stats'] = ex.stats
    out['truncated'] = ex.truncated
    out['distinct'] = len(out['distinct'])
    return out


def replay(job, v):
    fn = mixed_path('real') if job['kind'] == 'mixed' else ids_path(job['n'], job.get('scenarios'), 'real')
    run_ = sx.ConcreteRun(v['values'])
    res, exc = run_.run(fn)
    if exc is not None:
        return False, f'harness raised {exc!r}'
    return bool(res['problems']), f"real netCDF4, {res['scenario']}: {res['problems'][:2]}"
