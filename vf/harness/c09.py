"""C09 / C10 (merge part): merged stores on the netCDF4 model with real directory operations.

Input layouts (number of parts, sizes, naming, explicit list or numbered pattern, identified or not, with associated
stores) are solver-chosen; identifiers are solver integers (so lookup across parts is checked for every order)."""
from __future__ import annotations

import json
import os
import time
from pathlib import Path

import numpy as np
import z3

import vf.symex as sx
from vf.symex import choose, cur, symint
from vf.harness import store as S
from vf.harness.c08 import _patches

NAMINGS = {
    'reverse_alphabetical': lambda k: f'{"zyxw"[k]}_part.nc',
    'alphabetical': lambda k: f'part_{"abcd"[k]}.nc',
    'unpadded_numbers': lambda k: f'chunk_{9 + k}.nc',
}


def merge_path(max_parts, backend_kind='fake', fixed=None, max_assoc=2):
    fixed = fixed or {}

    def pick(name, options):
        return fixed[name] if name in fixed else choose(name, options)

    def fn(ex):
        ST, FS, TR = S.mods()
        k = pick('parts', list(range(1, max_parts + 1)))
        sizes = [pick(f'size{i}', [1, 2]) for i in range(k)]
        naming = pick('naming', list(NAMINGS))
        how = pick('how', ['list', 'pattern']) if naming == 'unpadded_numbers' else 'list'
        identified = pick('identified', [True, False])
        with_assoc = pick('with_associated', [False, True] + ([2] if max_assoc >= 2 else []))
        n_assoc = int(with_assoc)
        total = sum(sizes)
        symbolic_ids = identified and total <= 3
        ids = [symint(f'id{j}', 0, 10 ** 6) for j in range(total)] if symbolic_ids else ([(7919 * (j + 3)) % 1000 for j in range(total)] if identified else [None] * total)
        if symbolic_ids and not ex.concrete:
            for a in range(total):
                for b in range(a + 1, total):
                    ex.assume(ids[a] != ids[b])
        if symbolic_ids and ex.concrete and len(set(ids)) != total:
            return dict(problems=[], layout='replay values not distinct', skipped=True)
        problems = []
        layout = dict(parts=k, sizes=sizes, naming=naming, how=how, identified=identified, with_associated=with_assoc)
        with S.backend(backend_kind), _patches(backend_kind), S.Scratch('c09') as d:
            try:
                paths, apaths, j = [], [[] for _ in range(n_assoc)], 0
                extras = [_extra_fieldset(a) for a in range(n_assoc)]
                pre = ['assoc_', 'bssoc_']
                for i in range(k):
                    p = d / NAMINGS[naming](i)
                    aps = [d / (pre[a] + NAMINGS[naming](i)) for a in range(n_assoc)]
                    kw = dict(base_file=p)
                    if n_assoc:
                        kw['associated_files'] = [(aps[a], [extras[a].fieldset_name]) for a in range(n_assoc)]
                    with ST.TrajectoryStore.create(**kw) as ts:
                        for _ in range(sizes[i]):
                            t = S.make_traj(j + 1, flight_id=ids[j], fieldsets=[e_.fieldset_name for e_ in extras] if n_assoc else None)
                            for a in range(n_assoc):
                                setattr(t, EXTRA_FIELDS[a], np.array([(j + 1) * (7.0 + 4 * a) + q for q in range(len(t))]))
                            ts.add(t)
                            j += 1
                    paths.append(p)
                    for a in range(n_assoc):
                        apaths[a].append(aps[a])
                out = d / 'merged.aeic-store'
                aouts = [d / f'merged_{pre[a]}.aeic-store' for a in range(n_assoc)]
                if how == 'pattern':
                    ST.TrajectoryStore.merge(output_store=out, input_stores_pattern=d / 'chunk_{index}.nc', input_stores_index_range=(9, 9 + k - 1))
                    for a in range(n_assoc):
                        ST.TrajectoryStore.merge(output_store=aouts[a], input_stores_pattern=d / (pre[a] + 'chunk_{index}.nc'), input_stores_index_range=(9, 9 + k - 1))
                else:
                    ST.TrajectoryStore.merge(output_store=out, input_stores=paths)
                    for a in range(n_assoc):
                        ST.TrajectoryStore.merge(output_store=aouts[a], input_stores=apaths[a])
                okw = dict(base_file=out)
                if n_assoc:
                    okw['associated_files'] = list(aouts)
                with ST.TrajectoryStore.open(**okw) as ts:
                    for a in range(n_assoc):
                        for i in range(min(total, len(ts))):
                            try:
                                v = getattr(ts[i], EXTRA_FIELDS[a])
                                if len(v) != len(ts[i]) or any(abs(float(v[q]) - ((i + 1) * (7.0 + 4 * a) + q)) > 1e-9 for q in range(len(v))):
                                    problems.append(f'index {i}: data of merged associated store {a} belongs to another trajectory ({[float(x) for x in v]})')
                            except Exception as e:  # noqa
                                problems.append(f'index {i}: associated data (store {a}): {type(e).__name__}: {e}')
                    if len(ts) != total:
                        problems.append(f'length {len(ts)} != sum of input lengths {total}')
                    for i in range(total):
                        try:
                            t = ts[i]
                            if not S.check_payload(t, i + 1):
                                problems.append(f'index {i} returned trajectory {S.tag_of(t) - 1} of the concatenation')
                        except Exception as e:  # noqa
                            problems.append(f'index {i}: {type(e).__name__}: {e}')
                    try:
                        ts[total]
                        problems.append('index beyond the end returned a trajectory')
                    except IndexError:
                        pass
                    if identified:
                        for i in range(total):
                            t = ts.get_flight(ids[i])
                            if t is None or not S.check_payload(t, i + 1):
                                problems.append(f'lookup of the identifier of trajectory {i} returned {None if t is None else S.tag_of(t) - 1}')
                    got = [S.tag_of(t) - 1 for t in ts]
                    if got != list(range(total)):
                        problems.append(f'iteration order {got}')
                meta = json.loads((out / 'metadata.json').read_text())
                listed = [s_[0] for s_ in meta.get('stores', [])] if isinstance(meta.get('stores'), list) else list(meta.get('stores', {}))
                if sorted(listed) != sorted(p.name for p in paths):
                    problems.append(f'metadata lists {listed}')
            except Exception as e:  # noqa
                import traceback
                problems.append(f'unexpected {type(e).__name__}: {e} :: {traceback.format_exc()[-400:]}')
        return dict(problems=problems, layout=layout)
    return fn


def refusal_path(backend_kind='fake'):
    """inputs that must be refused (differing field sets, mixed identification) or handled (same file name in two
    directories); a refusal leaves the inputs in place and a corrected retry succeeds (C10)"""
    def fn(ex):
        ST, FS, TR = S.mods()
        case = choose('case', ['different_field_sets', 'mixed_identification', 'same_basename', 'missing_input', 'wrong_extension', 'output_exists'])
        problems = []
        with S.backend(backend_kind), S.Scratch('c09r') as d:
            try:
                extra = _extra_fieldset()
                (d / 'd1').mkdir()
                (d / 'd2').mkdir()
                a, b = d / 'd1' / 'a.nc', d / 'd2' / ('a.nc' if case == 'same_basename' else 'b.nc')
                with ST.TrajectoryStore.create(base_file=a) as ts:
                    ts.add(S.make_traj(1, flight_id=11))
                with ST.TrajectoryStore.create(base_file=b) as ts:
                    if case == 'different_field_sets':
                        t = S.make_traj(2, flight_id=22, fieldsets=[extra.fieldset_name])
                        t.vf_extra = np.zeros(2)
                        ts.add(t)
                    else:
                        ts.add(S.make_traj(2, flight_id=None if case == 'mixed_identification' else 22))
                out = d / ('merged.store' if case == 'wrong_extension' else 'merged.aeic-store')
                inputs = [a, b] if case != 'missing_input' else [a, d / 'nope.nc']
                if case == 'output_exists':
                    out.mkdir()
                refused = None
                try:
                    ST.TrajectoryStore.merge(output_store=out, input_stores=inputs)
                except ValueError as e:
                    refused = e
                if case == 'same_basename':
                    if refused is None:
                        # accepted: then it must be the concatenation
                        with ST.TrajectoryStore.open(base_file=out) as ts:
                            tags = [S.tag_of(t) for t in ts]
                        if tags != [1, 2]:
                            problems.append(f'inputs with the same file name in two directories: merged store holds {tags}, expected [1, 2]')
                else:
                    if refused is None:
                        problems.append(f'{case}: merge was not refused')
                if refused is not None:
                    # nothing lost: every trajectory still readable from its original file
                    for pth, tag in ((a, 1), (b, 2)):
                        try:
                            with ST.TrajectoryStore.open(base_file=pth) as ts:
                                if [S.tag_of(t) for t in ts] != [tag]:
                                    problems.append(f'{case}: after the refusal {pth.name} holds {[S.tag_of(t) for t in ts]}')
                        except Exception as e:  # noqa
                            problems.append(f'{case}: after the refusal input {pth.parent.name}/{pth.name} is not readable: {type(e).__name__}: {e}')
                    # retry after correcting the cause
                    try:
                        if case == 'output_exists':
                            out.rmdir()
                            ST.TrajectoryStore.merge(output_store=out, input_stores=[a, b])
                        elif case == 'wrong_extension':
                            ST.TrajectoryStore.merge(output_store=d / 'merged.aeic-store', input_stores=[a, b])
                        else:
                            good = d / 'd2' / 'c.nc'
                            with ST.TrajectoryStore.create(base_file=good) as ts:
                                ts.add(S.make_traj(2, flight_id=22))
                            ST.TrajectoryStore.merge(output_store=d / 'merged.aeic-store', input_stores=[a, good])
                        with ST.TrajectoryStore.open(base_file=d / 'merged.aeic-store') as ts:
                            if [S.tag_of(t) for t in ts] != [1, 2]:
                                problems.append(f'{case}: corrected retry gives {[S.tag_of(t) for t in ts]}')
                    except Exception as e:  # noqa
                        problems.append(f'{case}: retry after correcting the cause failed: {type(e).__name__}: {e}')
            except Exception as e:  # noqa
                import traceback
                problems.append(f'{case}: unexpected {type(e).__name__}: {e} :: {traceback.format_exc()[-300:]}')
        return dict(problems=problems, layout=dict(case=case))
    return fn


_EXTRA = {}
EXTRA_FIELDS = ['vf_extra', 'vf_extra2']


def _extra_fieldset(a=0):
    ST, FS, TR = S.mods()
    name = 'vf_extra_fields' + ('' if a == 0 else str(a + 1))
    if a not in _EXTRA:
        if name in FS.FieldSet.REGISTRY:
            _EXTRA[a] = FS.FieldSet.REGISTRY[name]
        else:
            _EXTRA[a] = FS.FieldSet(name, **{EXTRA_FIELDS[a]: FS.FieldMetadata(description='harness field', units='1')})
    return _EXTRA[a]


class Crash(Exception):
    pass


def crash_path(backend_kind='fake'):
    """an injected failure at the k-th file-system step of merge"""
    def fn(ex):
        ST, FS, TR = S.mods()
        identified = choose('identified', [True, False])
        k_crash = choose('crash_at_step', list(range(0, 9)))
        problems = []
        steps = []
        with S.backend(backend_kind), S.Scratch('c10c') as d:
            try:
                paths = []
                for i in range(3):
                    p = d / f'in{i}.nc'
                    with ST.TrajectoryStore.create(base_file=p) as ts:
                        ts.add(S.make_traj(i + 1, flight_id=(100 + i) if identified else None))
                    paths.append(p)
                out = d / 'merged.aeic-store'
                counter = [0]

                def tick(what):
                    steps.append(what)
                    counter[0] += 1
                    if counter[0] - 1 == k_crash:
                        raise Crash(what)
                real_mkdir, real_rename, real_open = os.mkdir, os.rename, open
                nc = ST.nc4

                class OsShim:
                    def __getattr__(self, k):
                        return getattr(os, k)

                    def mkdir(self, *a, **kw):
                        tick('mkdir')
                        return real_mkdir(*a, **kw)

                    def rename(self, *a, **kw):
                        tick(f'rename {Path(a[0]).name}')
                        return real_rename(*a, **kw)

                def open_shim(file, mode='r', *a, **kw):
                    if 'w' in mode and str(file).endswith('metadata.json'):
                        tick('write metadata.json')
                    return real_open(file, mode, *a, **kw)

                class NcShim:
                    def __getattr__(self, k):
                        return getattr(nc, k)

                    def Dataset(self, path, mode='r', *a, **kw):
                        if mode == 'w':
                            tick(f'create {Path(path).name}')
                        return nc.Dataset(path, mode, *a, **kw)
                crashed = None
                with sx.patched((ST, 'os', OsShim()), (ST, 'open', open_shim), (ST, 'nc4', NcShim())):
                    try:
                        ST.TrajectoryStore.merge(output_store=out, input_stores=paths)
                    except Crash as e:
                        crashed = e
                # observation
                announced = (out / 'metadata.json').exists()
                for i, p in enumerate(paths):
                    found = []
                    for cand in (p, out / p.name):
                        if cand.exists():
                            try:
                                with ST.TrajectoryStore.open(base_file=cand) as ts:
                                    if [S.tag_of(t) for t in ts] == [i + 1]:
                                        found.append(cand)
                            except Exception:  # noqa
                                pass
                    if not found:
                        problems.append(f'after a failure at step {k_crash} ({crashed}) trajectory {i} is readable neither from {p.name} nor from the merged directory')
                if announced:
                    meta = json.loads((out / 'metadata.json').read_text())
                    listed = [s_[0] for s_ in meta['stores']] if isinstance(meta['stores'], list) else list(meta['stores'])
                    missing = [nme for nme in listed if not (out / nme).exists()]
                    if missing or sorted(listed) != sorted(p.name for p in paths):
                        problems.append(f'metadata.json announces a complete store but parts {missing or listed} are missing/unlisted')
                    else:
                        try:
                            with ST.TrajectoryStore.open(base_file=out) as ts:
                                if [S.tag_of(t) for t in ts] != [1, 2, 3]:
                                    problems.append(f'announced store holds {[S.tag_of(t) for t in ts]}')
                                if identified and crashed is None and (ts.get_flight(101) is None or S.tag_of(ts.get_flight(101)) != 2):
                                    problems.append('announced identified store cannot look up an identifier')
                        except Exception as e:  # noqa
                            problems.append(f'announced store cannot be opened: {type(e).__name__}: {e}')
                elif crashed is None:
                    problems.append('merge returned without writing metadata.json')
            except Exception as e:  # noqa
                import traceback
                problems.append(f'unexpected {type(e).__name__}: {e} :: {traceback.format_exc()[-300:]}')
        return dict(problems=problems, layout=dict(identified=identified, crash_at_step=k_crash, steps=steps))
    return fn


def run(job):
    ex = sx.Explorer(purify=False, deadline=time.time() + job.get('deadline_s', 600), max_paths=10 ** 6)
    out = dict(obligations={}, violations=[], samples=[], distinct=set(), unknown=[])
    kind = job['kind']
    pid = job.get('pid', 'C09')
    fn = {'merge': lambda: merge_path(job['max_parts'], fixed=job.get('fixed')), 'refusal': refusal_path, 'crash': crash_path}[kind]()
    oid = {'merge': 'C09.merged_store_is_the_concatenation', 'refusal': ('C09.invalid_inputs_refused_and_nothing_lost' if pid == 'C09' else 'C10.merge.refusal_keeps_inputs_and_allows_retry'), 'crash': 'C10.merge.interrupted_merge_loses_nothing'}[kind]
    d = out['obligations'].setdefault(oid, dict(unsat=0, sat=0, unknown=0))
    for p in ex.explore(fn):
        if p.exc is not None:
            out['violations'].append(dict(obligation='harness', detail=f'{p.exc!r} {(p.tb or "")[-600:]}', values={}, tags={}))
            continue
        o = p.result
        if o['problems']:
            r, m = ex.check(z3.BoolVal(True), pc=list(ex.pc))
            if r == 'sat':
                d['sat'] += 1
                vals = {k: sx.mval(m, v) for k, v in p.inputs.items()}
                lay = o['layout']
                tags = dict(kind=kind, **{k: str(v) for k, v in lay.items() if k in ('case', 'naming', 'how', 'crash_at_step', 'identified')})
                if kind == 'crash':
                    tags['failing_step'] = (lay['steps'][-1].split(' ')[0] if lay['steps'] else 'none')
                out['violations'].append(dict(obligation=oid, detail=f"{lay}: {o['problems'][:2]}", values=vals, tags=tags))
            else:
                d['unsat' if r == 'unsat' else 'unknown'] += 1
        else:
            d['unsat'] += 1
            out['distinct'].add((json.dumps(o['layout'], default=str), tuple(p.trace)))
        if len(out['samples']) < 2:
            out['samples'].append(dict(layout=o['layout']))
    out['stats'] = ex.stats
    out['truncated'] = ex.truncated
    out['distinct'] = len(out['distinct'])
    return out


def replay(job, v):
    kind = job['kind']
    fn = {'merge': lambda: merge_path(job['max_parts'], 'real', fixed=job.get('fixed')), 'refusal': lambda: refusal_path('real'), 'crash': lambda: crash_path('real')}[kind]()
    run_ = sx.ConcreteRun(v['values'])
    res, exc = run_.run(fn)
    if exc is not None:
        return False, f'harness raised {exc!r}'
    return bool(res['problems']), f"real netCDF4 and real directory operations, {res['layout']}: {res['problems'][:2]}"
