"""C10 (add part): an addition the store rejects leaves it exactly as it was."""
from __future__ import annotations

import time

import numpy as np
import z3

import vf.symex as sx
from vf.symex import choose
from vf.harness import store as S
from vf.harness.c09 import _extra_fieldset

KINDS = ['required_value_missing', 'different_field_sets', 'identifier_missing_in_identified_store', 'identifier_given_in_unidentified_store']


def bad_traj(kind, tag, identified, with_id=None):
    ST, FS, TR = S.mods()
    if kind == 'required_value_missing':
        # the rejected trajectory may use identifiers like the store does or the other way round (two reasons to refuse
        # it, or - as the first addition of a new store - a trajectory that must not decide the kind of the store)
        t = S.make_traj(tag, flight_id=(500 + tag) if (identified if with_id is None else with_id) else None)
        t._data['starting_mass'] = None            # a required per-trajectory value was never set
        return t
    if kind == 'different_field_sets':
        ex = _extra_fieldset()
        t = S.make_traj(tag, flight_id=(500 + tag) if (identified if with_id is None else with_id) else None, fieldsets=[ex.fieldset_name])
        t.vf_extra = np.zeros(2)
        return t
    if kind == 'identifier_missing_in_identified_store':
        return S.make_traj(tag, flight_id=None)
    return S.make_traj(tag, flight_id=500 + tag)


def reject_path(n_adds, backend_kind='fake'):
    def fn(ex):
        ST, FS, TR = S.mods()
        identified = choose('identified_store', [True, False])
        kinds = [k for k in KINDS if not ((k == 'identifier_missing_in_identified_store' and not identified) or (k == 'identifier_given_in_unidentified_store' and identified))]
        kind = choose('rejection_kind', kinds)
        pos = choose('position_of_rejected_add', list(range(0, n_adds + 1)))
        session = choose('session', ['create', 'append', 'in_memory'])
        with_id = choose('rejected_trajectory_carries_identifier', [True, False]) if kind in ('required_value_missing', 'different_field_sets') else None
        problems = []
        layout = dict(identified=identified, kind=kind, position=pos, session=session, rejected_with_identifier=with_id)
        if pos == 0 and kind in ('identifier_missing_in_identified_store', 'identifier_given_in_unidentified_store', 'different_field_sets') and session != 'append':
            # the first trajectory of a new store decides its kind: nothing to reject against
            return dict(problems=[], layout=layout, trivial=True)
        with S.backend(backend_kind), S.Scratch('c10a') as d:
            pth = None if session == 'in_memory' else d / 'a.nc'
            model = []
            try:
                ts = ST.TrajectoryStore.create(base_file=pth)
                if session == 'append':
                    ts.add(S.make_traj(90, flight_id=590 if identified else None))
                    model.append(90)
                    ts.close()
                    ts = ST.TrajectoryStore.append(base_file=pth)
                tag = 1
                for step in range(n_adds + 1):
                    if step == pos:
                        try:
                            ts.add(bad_traj(kind, 77, identified, with_id))
                            problems.append(f'{kind}: the addition was accepted')
                            model.append(77)
                        except (ValueError, TypeError) as e:
                            # exactly as it was
                            if len(ts) != len(model):
                                problems.append(f'after the rejected add ({type(e).__name__}) the length is {len(ts)}, was {len(model)}')
                            for i, tg in enumerate(model):
                                try:
                                    if S.tag_of(ts[i]) != tg:
                                        problems.append(f'after the rejected add index {i} holds trajectory {S.tag_of(ts[i])}')
                                except Exception as e2:  # noqa
                                    problems.append(f'after the rejected add index {i}: {type(e2).__name__}: {e2}')
                            try:
                                ts[len(model)]
                                problems.append('after the rejected add the rejected trajectory is readable at the next index')
                            except IndexError:
                                pass
                            except Exception as e2:  # noqa
                                problems.append(f'after the rejected add, reading the next index raises {type(e2).__name__}: {e2}')
                    if step < n_adds:
                        idx = ts.add(S.make_traj(tag, flight_id=(500 + tag) if identified else None))
                        if idx != len(model):
                            problems.append(f'add after the rejection returned index {idx}, expected {len(model)}')
                        model.append(tag)
                        tag += 1
                if identified and session != 'in_memory':
                    for i, tg in enumerate(model):
                        t = ts.get_flight(500 + tg)
                        if t is None or S.tag_of(t) != tg:
                            problems.append(f'identifier lookup of trajectory {tg} after the rejection: {None if t is None else S.tag_of(t)}')
                ts.close()
                if pth is not None:
                    with ST.TrajectoryStore.open(base_file=pth) as ts2:
                        got = [S.tag_of(t) for t in ts2]
                        if got != model:
                            problems.append(f'a later reopen shows {got}, successful additions were {model}')
            except Exception as e:  # noqa
                import traceback
                problems.append(f'unexpected {type(e).__name__}: {e} :: {traceback.format_exc()[-300:]}')
        return dict(problems=problems, layout=layout)
    return fn


def run(job):
    ex = sx.Explorer(purify=False, deadline=time.time() + job.get('deadline_s', 600), max_paths=10 ** 6)
    out = dict(obligations={}, violations=[], samples=[], distinct=set(), unknown=[])
    oid = 'C10.add.rejected_addition_leaves_store_unchanged'
    d = out['obligations'].setdefault(oid, dict(unsat=0, sat=0, unknown=0))
    for p in ex.explore(reject_path(job['n_adds'])):
        if p.exc is not None:
            out['violations'].append(dict(obligation='harness', detail=f'{p.exc!r} {(p.tb or "")[-600:]}', values={}, tags={}))
            continue
        o = p.result
        if o['problems']:
            r, m = ex.check(z3.BoolVal(True), pc=list(ex.pc))
            d['sat' if r == 'sat' else 'unknown'] += 1
            vals = {k: sx.mval(m, v) for k, v in p.inputs.items()} if r == 'sat' else {}
            out['violations'].append(dict(obligation=oid, detail=f"{o['layout']}: {o['problems'][:2]}", values=vals, tags=dict(kind=o['layout']['kind'], session=o['layout']['session'])))
        else:
            d['unsat'] += 1
            if not o.get('trivial'):
                out['distinct'].add(tuple(sorted((k, str(v)) for k, v in o['layout'].items())))
        if len(out['samples']) < 2 and not o.get('trivial'):
            out['samples'].append(o['layout'])
    out['stats'] = ex.stats
    out['truncated'] = ex.truncated
    out['distinct'] = len(out['distinct'])
    return out


def replay(job, v):
    run_ = sx.ConcreteRun(v['values'])
    res, exc = run_.run(reject_path(job['n_adds'], 'real'))
    if exc is not None:
        return False, f'harness raised {exc!r}'
    return bool(res['problems']), f"real netCDF4, {res['layout']}: {res['problems'][:2]}"
