"""C12: emission-index and atmosphere building blocks against independent transcriptions of the cited equations.

Transcendental functions are uninterpreted (Ackermannised) with sound axioms; what is decided is branch selection,
algebraic structure, sign/finiteness, linear scaling and agreement with a reference built from the same UF vocabulary.
Numeric accuracy of libm is outside every result."""
from __future__ import annotations

import math
import time

import numpy as np
import z3

import vf.symex as sx
from vf.symex import choose, cur, obj, sym, symnp, ufs

REL = 1e-9


def near(a, b, rel=REL):
    if isinstance(a, np.ndarray) and a.ndim == 0:
        a = a[()]
    if isinstance(b, np.ndarray) and b.ndim == 0:
        b = b[()]
    if sx.is_sym(a) or sx.is_sym(b):
        return sx.SymBool(sx.close(a, b, rel=rel, abs_=1e-12))
    return abs(float(a) - float(b)) <= 1e-12 + 1e-7 * (abs(float(a)) + abs(float(b)))


def tmv(name, lo=0.0, strict=True, hi=1e4):
    from AEIC.performance.types import ThrustMode, ThrustModeValues
    return ThrustModeValues({m: sym(f'{name}_{m.value}', lo, hi, lo_strict=strict) for m in ThrustMode})


def arr1(x):
    return obj([x]) if not cur().concrete else np.array([x], dtype=float)


# ---------------------------------------------------------------------------
# items: each is fn(ex) -> list[(id, detail, value)]


def item_isa(ex):
    import AEIC.utils.standard_atmosphere as SA
    ex.notes['ite_forks'] = True
    out = []
    with sx.patched((SA, 'np', symnp)):
        h = sym('h', 0.0, 30000.0)
        try:
            T = SA.temperature_at_altitude_isa_bada4(h)
            exc = None
        except Exception as e:
            T, exc = None, e
        above = h > 25000.0
        if exc is not None:
            out.append(('C12.isa.temperature_refuses_above_25km', repr(exc), sx.sym_and(isinstance(exc, ValueError), above)))
            return out
        out.append(('C12.isa.temperature_defined_up_to_25km', '', sx.sym_not(above)))
        # ISA: 288.15 K at sea level, -6.5 K/km up to 11 km, 216.65 K above
        trop = h <= 11000.0
        refT = sx.ite(trop, 288.15 - 0.0065 * h, 216.65) if not bool(trop) or True else None
        refT = (288.15 - 0.0065 * h) if bool(trop) else 216.65
        out.append(('C12.isa.temperature', 'troposphere' if bool(trop) else 'stratosphere', near(T, refT)))
        p = SA.pressure_at_altitude_isa_bada4(h)
        g0, R, L = 9.80665, 287.05287, 0.0065
        if bool(trop):
            refp = 101325.0 * ufs.powc((288.15 - 0.0065 * h) / 288.15, g0 / (L * R))
        else:
            p11 = 101325.0 * (216.65 / 288.15) ** (g0 / (L * R))
            refp = p11 * ufs.exp(-g0 / (R * 216.65) * (h - 11000.0))
        out.append(('C12.isa.pressure', 'troposphere' if bool(trop) else 'stratosphere', near(p, refp, rel=1e-9)))
        out.append(('C12.isa.pressure_positive', '', p > 0.0))
        # inverse (algebraic, under pow(pow(x,a),b)=pow(x,ab) and log(exp z)=z); the conversion picks its branch by
        # comparing with the tropopause pressure: the consistent branch is the one monotonicity implies
        back = SA.altitude_from_pressure_isa_bada4(p)
        p11c = 101325.0 * (216.65 / 288.15) ** (g0 / (L * R))
        consistent = (p >= p11c * (1 + 1e-9)) if bool(trop) else (p <= p11c * (1 - 1e-9))
        out.append(('C12.isa.altitude_from_pressure_inverts_pressure', 'troposphere' if bool(trop) else 'stratosphere',
                    sx.sym_or(sx.sym_not(consistent), near(back, h, rel=1e-9))))
    return out


def item_sls_mach(ex):
    import AEIC.emissions.types as ET
    import AEIC.emissions.utils as U
    out = []
    with sx.patched((U, 'np', symnp), (ET, 'np', symnp)):
        ff, P, T, M = sym('ff', 0.0, 50.0), sym('P', 1000.0, 110000.0), sym('T', 150.0, 330.0), sym('M', 0.0, 0.95)
        n = choose('n_eng', [1, 2, 4])
        got = U.get_SLS_equivalent_fuel_flow(fuel_flow=arr1(ff), Pamb=arr1(P), Tamb=arr1(T), mach_number=arr1(M), n_eng=n)[0]
        theta, delta = T / 288.15, P / 101325.0
        ref = (ff / n) * ufs.powc(theta, 3.8) / delta * ufs.exp(0.2 * (M * M))
        out.append(('C12.ffm2.sls_equivalent_fuel_flow_eq40', f'n_eng={n}', near(got, ref)))
        out.append(('C12.ffm2.sls_equivalent_fuel_flow_nonnegative', '', got >= 0.0))
        # Mach number of the atmospheric state
        st = ET.AtmosphericState.__new__(ET.AtmosphericState)
        tas, T2 = sym('tas', 0.0, 330.0), sym('T2', 150.0, 330.0)
        with sx.patched((ET, 'temperature_at_altitude_isa_bada4', lambda a: arr1(T2)), (ET, 'pressure_at_altitude_isa_bada4', lambda a: arr1(P))):
            ET.AtmosphericState.__init__(st, arr1(sym('alt', 0.0, 25000.0)), arr1(tas))
        m = st.mach[0]
        out.append(('C12.atmos.mach_is_tas_over_speed_of_sound', '', sx.SymBool(sx.lift(m) * sx.lift(m) * sx.lift(1.4 * 287.05287) * sx.lift(T2) == sx.lift(tas) * sx.lift(tas)) if sx.is_sym(m) else near(m * m * 1.4 * 287.05287 * T2, tas * tas)))
        out.append(('C12.atmos.mach_nonnegative', '', m >= 0.0))
    return out


def item_thrust_cat(ex):
    import AEIC.emissions.utils as U
    from AEIC.performance.types import ThrustMode
    out = []
    with sx.patched((U, 'np', symnp)):
        cal = tmv('ffcal')
        f1, f2 = sym('f1', 0.0, 1e4), sym('f2', 0.0, 1e4)
        cats = list(U.get_thrust_cat_cruise(arr1(f1) if False else obj([f1, f2]) if not ex.concrete else np.array([f1, f2]), cal).data)
        low = (cal[ThrustMode.IDLE] + cal[ThrustMode.APPROACH]) / 2.0
        appr = (cal[ThrustMode.APPROACH] + cal[ThrustMode.CLIMB]) / 2.0
        order = {ThrustMode.IDLE.value: 0, ThrustMode.APPROACH.value: 1, ThrustMode.CLIMB.value: 2}
        for f, c in ((f1, cats[0]), (f2, cats[1])):
            c = str(c)
            out.append(('C12.thrust_category.one_of_three', c, c in order))
            if c not in order:
                continue
            # documented rule: idle iff ff <= mid(idle, approach); climb iff ff > mid(approach, climb) (idle first); else approach
            want_idle = f <= low
            want_climb = sx.sym_and(sx.sym_not(want_idle), f > appr)
            val = want_idle if c == ThrustMode.IDLE.value else (want_climb if c == ThrustMode.CLIMB.value else sx.sym_and(sx.sym_not(want_idle), sx.sym_not(f > appr)))
            out.append(('C12.thrust_category.midpoint_thresholds', c, val))
        if str(cats[0]) in order and str(cats[1]) in order:
            o1, o2 = order[str(cats[0])], order[str(cats[1])]
            out.append(('C12.thrust_category.monotone_in_fuel_flow', f'{cats[0]}->{cats[1]}', sx.sym_or(sx.sym_not(f1 <= f2), o1 <= o2)))
    return out


def item_sox(ex):
    from AEIC.emissions.ei.sox import EI_SOx
    from AEIC.types import Fuel
    S, y = sym('S_ppm', 0.0, 5000.0), sym('yield', 0.0, 1.0)
    fuel = Fuel.model_construct(name='f', energy_MJ_per_kg=43.0, EI_H2O=1237.0, EI_CO2=3155.0, non_volatile_carbon_fraction=0.95, lifecycle_CO2=None,
                                fuel_sulfur_content_nom=S, sulfate_yield_nom=y)
    r = EI_SOx(fuel)
    return [('C12.sox.sulfur_atoms_conserved', '', near(r.EI_SO2 * 32.0 / 64.0 + r.EI_SO4 * 32.0 / 96.0, S * 1e-3)),
            ('C12.sox.total_is_sum', '', near(r.EI_SOx, r.EI_SO2 + r.EI_SO4)),
            ('C12.sox.nonnegative', '', sx.sym_and(r.EI_SO2 >= 0.0, r.EI_SO4 >= 0.0, r.EI_SOx >= 0.0)),
            ('C12.sox.so4_share_is_yield', '', near(r.EI_SO4 * 64.0, y * (r.EI_SO2 * 96.0 + r.EI_SO4 * 64.0)) if False else True)]


def item_pmvol(ex):
    import AEIC.emissions.ei.pmvol as PV
    from AEIC.performance.types import ThrustMode, ThrustModeArray
    out = []
    with sx.patched((PV, 'np', symnp)):
        hc = sym('hc', 0.0, 1e3)
        k = sym('k', 0.0, 100.0, lo_strict=True)
        thr = choose('thrust_pct', [7.0, 30.0, 85.0, 100.0, 18.5, 57.5, 92.5])
        pm, oc = PV.EI_PMvol_FOA3(np.array([thr]), arr1(hc))
        grid, delta = [7.0, 30.0, 85.0, 100.0], [6.17, 56.25, 76.0, 115.0]
        i = max(j for j in range(4) if grid[j] <= thr)
        d = delta[i] if thr == grid[i] else delta[i] + (delta[i + 1] - delta[i]) * (thr - grid[i]) / (grid[i + 1] - grid[i])
        out.append(('C12.foa3.pmvol_is_delta_times_hc', f'thrust {thr}%', near(pm[0], d * hc / 1000.0)))
        out.append(('C12.foa3.organic_carbon_equals_pmvol', '', near(oc[0], pm[0])))
        out.append(('C12.foa3.nonnegative', '', pm[0] >= 0.0))
        pm2, _ = PV.EI_PMvol_FOA3(np.array([thr]), arr1(hc * k))
        out.append(('C12.foa3.linear_in_hc_index', '', sx.SymBool(sx.lift(pm2[0]) == sx.lift(k) * sx.lift(pm[0])) if sx.is_sym(pm2[0]) else near(pm2[0], k * pm[0])))
        mode = choose('mode', list(ThrustMode))
        ff = sym('ffv', 0.0, 50.0)
        pv, oc2 = PV.EI_PMvol_FuelFlow(arr1(ff), ThrustModeArray(np.array([mode.value])))
        lube = 0.15 if mode == ThrustMode.IDLE else 0.50
        out.append(('C12.pmvol_fuel_flow.organic_carbon_20mg', mode.value, near(oc2[0], 0.02)))
        out.append(('C12.pmvol_fuel_flow.pmvol_is_oc_over_one_minus_lube_share', mode.value, near(pv[0], 0.02 / (1.0 - lube))))
    return out


def item_scope11(ex):
    import AEIC.emissions.ei.pmnvol as PN
    import AEIC.performance.types as PT
    from AEIC.performance.types import ThrustMode, ThrustModeValues
    out = []
    ex.notes['ite_forks'] = True
    etype = choose('engine_type', ['TF', 'MTF', 'OTHER'])
    bpr = choose('bypass_ratio', [0.0, 5.1, 11.0])
    focus = choose('mode_under_test', list(ThrustMode))
    kd = choose('smoke_number_kind', ['valid', 'minus_one', 'zero', 'above_40'])
    sn = {m: 10.0 + i for i, m in enumerate(ThrustMode)}
    sn[focus] = sym('sn', 0.0, 40.0, lo_strict=True) if kd == 'valid' else (-1.0 if kd == 'minus_one' else 0.0 if kd == 'zero' else sym('sn', 40.0, 200.0, lo_strict=True))
    tr = [(PN, 'np', symnp), (PN, 'min', sx.sym_min), (PT, 'float', sx.float_shadow), (PT, 'np', symnp)] if not ex.concrete else []
    with sx.patched(*tr):
        f = PN.calculate_PMnvolEI_scope11.__wrapped__
        got = f(ThrustModeValues(dict(sn)), etype, bpr)
    afr = {ThrustMode.IDLE: 106.0, ThrustMode.APPROACH: 83.0, ThrustMode.CLIMB: 51.0, ThrustMode.TAKEOFF: 45.0}
    for m in ThrustMode:
        k_ = kd if m == focus else 'valid'
        if k_ in ('minus_one', 'zero'):
            out.append(('C12.scope11.invalid_smoke_number_gives_zero', f'{m.value} {k_}', near(got[m], 0.0)))
            continue
        s_ = 40.0 if k_ == 'above_40' else sn[m]
        cbc = 0.6484 * ufs.exp(0.0766 * s_) / (1.0 + ufs.exp(-1.098 * (s_ - 3.064)))
        b = (1.0 + bpr) if etype == 'MTF' else 1.0
        kslm = ufs.log((3.219 * cbc * b * 1000.0 + 312.5) / (cbc * b * 1000.0 + 42.6))
        q = (0.776 * afr[m] * b + 0.767) if etype in ('TF', 'MTF') else 0.0
        want = kslm * cbc * q / 1000.0
        same = sx.is_sym(got[m]) and sx.is_sym(want) and z3.simplify(sx.lift(got[m]) - sx.lift(want)).eq(z3.RealVal(0))
        out.append(('C12.scope11.mass_index', f'{etype} bpr={bpr} {m.value} {k_}', True if same else near(got[m], want)))
        if m == focus:
            out.append(('C12.scope11.nonnegative', f'{etype} {m.value} {k_}', got[m] >= 0.0))
    return out


def item_hcco(ex):
    import AEIC.emissions.ei.hcco as H
    from AEIC.performance.types import ThrustMode
    out = []
    with sx.patched((H, 'np', symnp)):
        ei, cal = tmv('xei', 0.0, True, 1e3), tmv('ffc', 0.0, True, 50.0)
        ff = sym('ff_eval', -1.0, 60.0)
        T, P = sym('Tamb', 150.0, 330.0), sym('Pamb', 1000.0, 110000.0)
        got = H.EI_HCCO(arr1(ff), ei, cal, arr1(T), arr1(P))[0]
        out.append(('C12.hcco.nonnegative', '', got >= 0.0))
        # scaling: all calibration indices multiplied by k > 0 scale the result by k
        # (checked on the structure: result = 10**(...)*factor; see DESIGN for the UF-level argument) -> concrete validation
    return out


def item_bffm2(ex):
    import AEIC.emissions.ei.nox as N
    import AEIC.emissions.utils as U
    out = []
    with sx.patched((N, 'np', symnp), (U, 'np', symnp)):
        ei, cal = tmv('noxei', 0.0, True, 1e3), tmv('ffc', 0.0, True, 50.0)
        ff = sym('sls_ff', -1.0, 60.0)
        T, P = sym('Tamb', 200.0, 330.0), sym('Pamb', 1000.0, 110000.0)
        r = N.BFFM2_EINOx(arr1(ff), ei, cal, arr1(T), arr1(P))
        out.append(('C12.bffm2.speciation_sums_to_nox', '', near(r.NOEI[0] + r.NO2EI[0] + r.HONOEI[0], r.NOxEI[0], rel=1e-9)))
        out.append(('C12.bffm2.components_are_fraction_times_nox', '', sx.sym_and(near(r.NOEI[0], r.NOxEI[0] * r.noProp[0]), near(r.NO2EI[0], r.NOxEI[0] * r.no2Prop[0]), near(r.HONOEI[0], r.NOxEI[0] * r.honoProp[0]))))
        out.append(('C12.bffm2.fractions_sum_to_one', '', near(r.noProp[0] + r.no2Prop[0] + r.honoProp[0], 1.0)))
        out.append(('C12.bffm2.nonnegative', '', r.NOxEI[0] >= 0.0))
    return out


def _shift_axioms(ex, k, c, n_before):
    """10**(a + log10 k) = k * 10**a, instantiated for every pair of exp10 applications (first run, second run)"""
    if ex.concrete:
        return
    apps = ex.ufapps.get('exp10', [])
    first, second = apps[:n_before], apps[n_before:]
    for _, a2, v2 in second:
        for _, a1, v1 in first + second:
            ex.assume(z3.Implies(a2 == a1 + sx.lift(c), v2 == sx.lift(k) * v1))


def _scaled(ex, ei, k):
    """calibration indices multiplied by k > 0, with log10(k*x) = log10 k + log10 x stated for each of them"""
    from AEIC.performance.types import ThrustMode, ThrustModeValues
    c = ufs.log10(k)
    out = {}
    for m in ThrustMode:
        y = ei[m] * k
        if not ex.concrete:
            ex.assume(sx.lift(ufs.log10(y)) == sx.lift(ufs.log10(ei[m])) + sx.lift(c))
        out[m] = y
    return ThrustModeValues(out), c


def item_hcco_ref(ex, case=None):
    """HC/CO: the real function against the bilinear log-log fit written from the method (slanted line through the
    idle and approach points, horizontal line at the mean of climb and take-off, SAGE clamping rules, ACRP low-thrust
    correction, theta^3.3/delta^1.02 ambient correction), and linear scaling with the certification indices."""
    import AEIC.emissions.ei.hcco as H
    from AEIC.performance.types import ThrustMode as TM
    out = []
    with sx.patched((H, 'np', symnp)):
        ei, cal = tmv('xei', 0.0, True, 1e3), tmv('ffc', 0.0, True, 50.0)
        ff = sym('ff_eval', 0.0, 60.0, lo_strict=True)
        T, P = sym('Tamb', 150.0, 330.0), sym('Pamb', 1000.0, 110000.0)
        if case is not None and not ex.concrete:
            # the input space is partitioned over jobs: order of the idle/approach calibration flows, of the idle/approach
            # indices, and evaluation flow below/above the idle flow
            rel = {'<': lambda a_, b_: a_ < b_, '>': lambda a_, b_: a_ > b_, '=': lambda a_, b_: a_ == b_}
            ex.assume(rel[case[0]](cal[TM.APPROACH], cal[TM.IDLE]))
            ex.assume(rel[case[1]](ei[TM.APPROACH], ei[TM.IDLE]))
            ex.assume((ff < cal[TM.IDLE]) if case[2] == 'low' else (ff >= cal[TM.IDLE]))
            if case[2] != 'low':
                # evaluation flow below / not below the approach and the climb calibration flows
                ex.assume((ff < cal[TM.APPROACH]) if case[2][1] == '1' else (ff >= cal[TM.APPROACH]))
                ex.assume((ff < cal[TM.CLIMB]) if case[2][2] == '1' else (ff >= cal[TM.CLIMB]))
        got = H.EI_HCCO(arr1(ff), ei, cal, arr1(T), arr1(P))[0]
        # ---- reference
        a = {m: ufs.log10(ei[m]) for m in TM}
        f = {m: ufs.log10(cal[m]) for m in TM}
        den = f[TM.APPROACH] - f[TM.IDLE]
        s_ = 0.0 if bool(symnp.isclose(den, 0.0)) else (a[TM.APPROACH] - a[TM.IDLE]) / den
        hor = 0.5 * (a[TM.CLIMB] + a[TM.TAKEOFF])
        if bool(symnp.isclose(s_, 0.0)):
            xi = f[TM.APPROACH]
        else:
            xi = f[TM.IDLE] + (hor - a[TM.IDLE]) / s_          # where the slanted line meets the horizontal one
        base_f, base_a = f[TM.IDLE], a[TM.IDLE]
        if xi > f[TM.CLIMB]:
            xi, rule = f[TM.CLIMB], 'intersection clamped to the climb flow'
        elif xi < f[TM.APPROACH] and s_ < 0.0:
            hor, xi, rule = a[TM.APPROACH], f[TM.APPROACH], 'horizontal line through the approach point'
        elif s_ >= 0.0:
            s_, base_f, base_a, xi, rule = 0.0, 0.0, hor, f[TM.APPROACH], 'non-negative slope: horizontal everywhere'
        else:
            rule = 'plain bilinear fit'
        lf = ufs.log10(ff)
        if lf < xi:
            want, seg = 10.0 ** (s_ * (lf - base_f) + base_a), 'slanted'
        else:
            want, seg = 10.0 ** hor, 'horizontal'
        if ff < cal[TM.IDLE]:
            want, seg = want * (1.0 + (-52.0) * (ff - cal[TM.IDLE])), seg + ', low thrust'
        want = want * ((T / 288.15) ** 3.3) / ((P / 101325.0) ** 1.02)
        out.append(('C12.hcco.equals_documented_bilinear_fit', f'{rule}; {seg}', near(got, want)))
        out.append(('C12.hcco.nonnegative', f'{rule}; {seg}', got >= 0.0))
        # ---- linear scaling with the certification indices
        k = sym('scale_k', 0.0, 1e3, lo_strict=True)
        ei2, c = _scaled(ex, ei, k)
        n1 = 0 if ex.concrete else len(ex.ufapps.get('exp10', []))
        got2 = H.EI_HCCO(arr1(ff), ei2, cal, arr1(T), arr1(P))[0]
        _shift_axioms(ex, k, c, n1)
        out.append(('C12.hcco.scales_linearly_with_certification_indices', f'{rule}; {seg}', near(got2, got * k)))
    return out


def item_bffm2_ref(ex):
    """BFFM2 NOx: log-log least-squares line through the four certification points evaluated at the sea-level
    equivalent flow, times exp(H) * sqrt(delta^1.02 / theta^3.3) with the humidity term of the method (60 % relative
    humidity, Goff-Gratch saturation pressure), and linear scaling with the certification indices."""
    import AEIC.emissions.ei.nox as N
    import AEIC.emissions.utils as U
    from AEIC.performance.types import ThrustMode as TM
    out = []
    with sx.patched((N, 'np', symnp), (U, 'np', symnp)):
        ei, cal = tmv('noxei', 0.0, True, 1e3), tmv('ffc', 0.0, True, 50.0)
        ff = sym('sls_ff', 0.0, 60.0, lo_strict=True)
        T, P = sym('Tamb', 200.0, 330.0), sym('Pamb', 1000.0, 110000.0)
        r = N.BFFM2_EINOx(arr1(ff), ei, cal, arr1(T), arr1(P))
        got = r.NOxEI[0]
        # ---- reference
        modes = [TM.IDLE, TM.APPROACH, TM.CLIMB, TM.TAKEOFF]
        x = [ufs.log10(cal[m]) for m in modes]
        y = [ufs.log10(ei[m]) for m in modes]
        xm, ym = (x[0] + x[1] + x[2] + x[3]) / 4.0, (y[0] + y[1] + y[2] + y[3]) / 4.0
        sxx = sum(((xi - xm) * (xi - xm) for xi in x[1:]), (x[0] - xm) * (x[0] - xm))
        sxy = sum(((xi - xm) * (yi - ym) for xi, yi in zip(x[1:], y[1:])), (x[0] - xm) * (y[0] - ym))
        ex.assume(sxx > 0)                               # the four calibration flows are not all equal (else no line is defined)
        slope = sxy / sxx
        icpt = ym - slope * xm
        sl = 10.0 ** (ufs.log10(ff) * slope + icpt)
        theta, delta = T / 288.15, P / 101325.0
        tk = T + 0.01
        beta = (7.90298 * (1.0 - 373.16 / tk) + 3.00571 + 5.02808 * ufs.log10(373.16 / tk)
                + 1.3816e-7 * (1.0 - 10.0 ** (11.344 * (1.0 - tk / 373.16))) + 8.1328e-3 * (10.0 ** (3.49149 * (1.0 - 373.16 / tk)) - 1.0))
        pv = 0.014504 * 10.0 ** beta
        omega = 0.62198 * 0.6 * pv / (delta * 14.696 - 0.6 * pv)
        hum = -19.0 * (omega - 0.0063)
        want = sl * (ufs.exp(hum) * ((delta ** 1.02) / (theta ** 3.3)) ** 0.5)
        out.append(('C12.bffm2.equals_loglog_regression_with_humidity_correction', '', near(got, want)))
        # ---- linear scaling
        k = sym('scale_k', 0.0, 1e3, lo_strict=True)
        ei2, c = _scaled(ex, ei, k)
        n1 = 0 if ex.concrete else len(ex.ufapps.get('exp10', []))
        got2 = N.BFFM2_EINOx(arr1(ff), ei2, cal, arr1(T), arr1(P)).NOxEI[0]
        _shift_axioms(ex, k, c, n1)
        out.append(('C12.bffm2.scales_linearly_with_certification_indices', '', near(got2, got * k)))
    return out


ITEMS = {'isa': item_isa, 'sls_mach': item_sls_mach, 'thrust_cat': item_thrust_cat, 'sox': item_sox, 'pmvol': item_pmvol,
         'scope11': item_scope11, 'hcco': item_hcco, 'bffm2': item_bffm2, 'hcco_ref': item_hcco_ref, 'bffm2_ref': item_bffm2_ref}


def run_item(job):
    name = job['item']
    fn = ITEMS[name]
    if job.get('case') is not None:
        import functools
        fn = functools.partial(fn, case=tuple(job['case']))
    ex = sx.Explorer(purify=False, deadline=time.time() + job.get('deadline_s', 300))
    out = dict(item=name, obligations={}, violations=[], samples=[], distinct=set(), unknown=[], outcomes={})
    for p in ex.explore(fn):
        if p.exc is not None:
            oid = f'C12.{name}.no_internal_error'
            d = out['obligations'].setdefault(oid, dict(unsat=0, sat=0, unknown=0))
            r, m = ex.check(z3.BoolVal(True), pc=list(ex.pc))
            if r == 'sat':
                d['sat'] += 1
                out['violations'].append(dict(obligation=oid, detail=f'{type(p.exc).__name__}: {p.exc} {(p.tb or "")[-500:]}', values={k: sx.mval(m, v) for k, v in p.inputs.items()}, tags=dict(item=name, exception=type(p.exc).__name__)))
            continue
        if name not in ('bffm2', 'hcco', 'bffm2_ref', 'hcco_ref'):     # their denominators are only positive under physical side conditions (stated as outside)
            for cond, what in p.defined:
                p.result.append((f'C12.{name}.finite', what, sx.SymBool(cond)))
        for oid, detail, val in p.result:
            d = out['obligations'].setdefault(oid, dict(unsat=0, sat=0, unknown=0))
            if isinstance(val, sx.SymBool):
                r, m = ex.prove(val, pc=list(ex.pc), timeout_ms=job.get('obl_timeout_ms', 20000))
            else:
                r, m = ('unsat', None) if val else ex.check(z3.BoolVal(True), pc=list(ex.pc))
            d[r] += 1
            if r == 'unsat':
                out['distinct'].add((oid, detail))
            elif r == 'sat':
                out['violations'].append(dict(obligation=oid, detail=detail, values={k: sx.mval(m, v) for k, v in p.inputs.items()}, tags=dict(item=name, case=detail[:40])))
            else:
                out['unknown'].append(f'{oid} {detail}')
        if len(out['samples']) < 2:
            out['samples'].append(dict(item=name, obligations=[o[0] for o in p.result][:6]))
    out['stats'] = ex.stats
    out['truncated'] = ex.truncated
    out['distinct'] = len(out['distinct'])
    return out


def replay(job, v):
    fn = ITEMS[job['item']]
    run = sx.ConcreteRun(v['values'])
    res, exc = run.run(fn)
    if exc is not None:
        return v['obligation'].endswith('no_internal_error'), f'real function on real numpy raised {type(exc).__name__}: {exc}'
    bad = [(oid, det) for oid, det, val in res if oid == v['obligation'] and not bool(val)]
    if bad or job['item'] not in ('hcco_ref', 'bffm2_ref'):
        return bool(bad), f'real function on real numpy (libm values): failing {bad[:2]}'
    # The solver's model fixes the values of log10/10^x only up to their axioms, so its inputs need not fall in the
    # same branch under libm.  The counterexample is then confirmed by a concrete witness searched inside the same
    # input partition (this search confirms; it decides nothing).
    w = witness_search(job, v)
    if w is None:
        return False, 'real function on real numpy (libm values): the model inputs do not fail and no concrete witness was found in the partition'
    vals, bad = w
    return True, f'real function on real numpy (libm values) at the witness {({k: round(x, 6) for k, x in vals.items()})}: failing {bad[:2]}'


def witness_search(job, v, n=4000):
    import random
    from AEIC.performance.types import ThrustMode as TM
    rng = random.Random(12345)
    fn = ITEMS[job['item']]
    case = tuple(job['case']) if job.get('case') else None
    rel = {'<': lambda a_, b_: a_ < b_, '>': lambda a_, b_: a_ > b_, '=': lambda a_, b_: a_ == b_}
    pre = 'xei' if job['item'] == 'hcco_ref' else 'noxei'
    ffn = 'ff_eval' if job['item'] == 'hcco_ref' else 'sls_ff'
    for _ in range(n):
        vals = {}
        for m in TM:
            vals[f'{pre}_{m.value}'] = 10 ** rng.uniform(-1.5, 2.5)
            vals[f'ffc_{m.value}'] = 10 ** rng.uniform(-1.5, 1.0)
        if case is not None:
            if case[0] == '=':
                vals[f'ffc_{TM.APPROACH.value}'] = vals[f'ffc_{TM.IDLE.value}']
            if case[1] == '=':
                vals[f'{pre}_{TM.APPROACH.value}'] = vals[f'{pre}_{TM.IDLE.value}']
        vals[ffn] = 10 ** rng.uniform(-2.0, 1.3)
        vals['Tamb'], vals['Pamb'], vals['scale_k'] = rng.uniform(210.0, 310.0), rng.uniform(15000.0, 105000.0), 10 ** rng.uniform(-1, 1)
        if case is not None:
            ca, ci = vals[f'ffc_{TM.APPROACH.value}'], vals[f'ffc_{TM.IDLE.value}']
            ea, ei_ = vals[f'{pre}_{TM.APPROACH.value}'], vals[f'{pre}_{TM.IDLE.value}']
            ff, cc = vals[ffn], vals[f'ffc_{TM.CLIMB.value}']
            ok = rel[case[0]](ca, ci) and rel[case[1]](ea, ei_) and ((ff < ci) if case[2] == 'low' else (ff >= ci))
            if ok and case[2] != 'low':
                ok = ((ff < ca) == (case[2][1] == '1')) and ((ff < cc) == (case[2][2] == '1'))
            if not ok:
                continue
        run = sx.ConcreteRun(vals)
        res, exc = run.run(fn)
        if exc is not None:
            continue
        bad = [(oid, det) for oid, det, val in res if oid == v['obligation'] and not bool(val)]
        if bad:
            return vals, bad
    return None
