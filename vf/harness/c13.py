"""C13: schedule import.  The real OAGDatabase.add, WritableDatabase._add_schedule/_add_flight/_set_flight_count and
_distance_check run with a recording cursor, the geodesic oracle, and pandas/zoneinfo replaced by a civil-time model:
dates are day ordinals (solver integers), `date_range(a, b)` yields a..b, the ISO weekday is (ordinal+3) mod 7 + 1,
attaching a zone fixes a UTC offset off(zone, local time) (uninterpreted), adding a timedelta to a zone-aware time adds
elapsed time (offset unchanged), timestamp = local seconds - offset."""
from __future__ import annotations

import datetime as dt
import time

import z3

import vf.symex as sx
from vf.symex import choose, cur, sym, symint
from vf.harness.c15 import Oracle

EPOCH_ORD = dt.date(1970, 1, 1).toordinal()
OFF = z3.Function('utc_offset_seconds', z3.IntSort(), z3.IntSort(), z3.IntSort())


class Zone:
    registry = {}

    def __init__(self, name):
        self.name = name
        self.id = 0 if name == 'UTC' else Zone.registry.setdefault(name, len(Zone.registry) + 1)


class SI:
    """solver integer value (seconds / days) with the few operations the code uses"""

    def __init__(self, t):
        self.t = t if isinstance(t, z3.ExprRef) else z3.IntVal(int(t))

    def __lt__(self, o):
        return sx.SymBool(self.t < _t(o))

    def __int__(self):
        raise TypeError('SI leaked into int()')


def _t(x):
    if isinstance(x, SI):
        return x.t
    if isinstance(x, sx.SymInt):
        return x.t
    return z3.IntVal(int(x))


class CivilTime:
    """local wall-clock seconds since 1970-01-01T00:00 plus the zone whose offset was fixed at `off_at`"""

    def __init__(self, secs, zone=None, off_at=None):
        self.secs, self.zone, self.off_at = secs, zone, off_at

    def isoweekday(self):
        day = self.secs / 86400                      # z3 integer division (floor for positive divisor)
        return SI((day + 3) % 7 + 1)                 # 1970-01-01 was a Thursday (4)

    def __add__(self, td):
        s = self.secs + int(td.total_seconds())
        if self.zone is None or self.zone.id == 0:
            return CivilTime(s, self.zone, s)        # naive / UTC: no offset changes
        return CivilTime(s, self.zone, self.off_at)  # zone-aware: elapsed time is added, the UTC offset stays

    def replace(self, tzinfo):
        return CivilTime(self.secs, tzinfo, self.secs)

    def utc_seconds(self):
        if self.zone is None or self.zone.id == 0:
            return self.secs
        off = OFF(z3.IntVal(self.zone.id), self.off_at)
        cur().assume(z3.And(off >= -14 * 3600, off <= 14 * 3600, off % 900 == 0))
        return self.secs - off

    def timestamp(self):
        return SI(self.utc_seconds())

    def __sub__(self, other):
        class TD:
            pass
        td = TD()
        td.days = SI((self.utc_seconds() - other.utc_seconds()) / 86400)
        return td


class FakePD:
    def __init__(self, calls):
        self.calls = calls

    def Timestamp(self, x, tz=None, **k):
        """midnight of a date (solver ordinal or concrete), naive or UTC"""
        if isinstance(x, CivilTime):
            return x
        o = _ord(x)
        secs = z3.simplify(o * 86400) if isinstance(o, z3.ExprRef) else z3.IntVal(int(o) * 86400)
        self.calls.append((x, None, tz))
        return CivilTime(secs, Zone('UTC') if tz in ('UTC', 'utc') else None, secs)

    def date_range(self, a, b, tz=None, **k):
        self.calls.append((a, b, tz))
        if a is None or b is None:
            raise ValueError('Of the four parameters: start, end, periods, and freq, exactly three must be specified')
        oa, ob = _ord(a), _ord(b)
        n = ob - oa + 1
        if not isinstance(n, int):
            n = int(sx.SymInt(z3.simplify(n), 0, 40))      # bounded symbolic length concretises here
        return [CivilTime(z3.simplify((oa + i) * 86400) if isinstance(oa, z3.ExprRef) else z3.IntVal((oa + i) * 86400), Zone('UTC')) for i in range(max(n, 0))]


class SymDays:
    """the set of operating weekdays with solver-chosen membership (one Boolean per weekday)"""

    def __init__(self, bits):
        self.bits = bits                               # DayOfWeek -> SymBool

    def __contains__(self, dw):
        return bool(self.bits[dw])                     # forks on the membership bit of this weekday only

    def term(self, wd):
        return z3.Or(*[z3.And(wd == dw.value, b.t) for dw, b in self.bits.items()])


class SymDate:
    """a calendar date given by its day ordinal since 1970-01-01 (solver integer)"""

    def __init__(self, ordinal):
        self.ordinal = ordinal

    def __bool__(self):
        return True

    def isoformat(self):
        return f'date#{self.ordinal}'

    def toordinal(self):
        return sx.SymInt(z3.simplify(self.ordinal + EPOCH_ORD), 0, 10 ** 7)

    def __sub__(self, other):
        """difference of two dates: an object with `.days` (bounded solver integer; concretises where Python needs an int)"""
        d = z3.simplify(self.ordinal - _ord(other)) if isinstance(_ord(other), z3.ExprRef) or isinstance(self.ordinal, z3.ExprRef) else self.ordinal - _ord(other)
        return type('DateDifference', (), {'days': sx.SymInt(d, -40, 40) if isinstance(d, z3.ExprRef) else int(d), 'total_seconds': lambda s_: d * 86400})()

    def __rsub__(self, other):
        d = z3.simplify(_ord(other) - self.ordinal)
        return type('DateDifference', (), {'days': sx.SymInt(d, -40, 40), 'total_seconds': lambda s_: d * 86400})()

    def __le__(self, other):
        return sx.SymBool(self.ordinal <= _ord(other))

    def __lt__(self, other):
        return sx.SymBool(self.ordinal < _ord(other))

    def __ge__(self, other):
        return sx.SymBool(self.ordinal >= _ord(other))

    def __gt__(self, other):
        return sx.SymBool(self.ordinal > _ord(other))

    def __add__(self, td):
        days = getattr(td, 'days', None)
        if days is None:
            days = td.s / 86400 if hasattr(td, 's') else int(td.total_seconds() // 86400)
        return SymDate(z3.simplify(self.ordinal + _t(days)))


def _ord(d):
    if isinstance(d, SymDate):
        return d.ordinal
    return d.toordinal() - EPOCH_ORD


class Cursor:
    def __init__(self):
        self.statements, self.rows = [], []

    def execute(self, sql, params=()):
        self.statements.append((sql, params))
        return self

    def executemany(self, sql, data):
        self.statements.append((sql, 'many'))
        self.rows += list(data)

    def fetchone(self):
        return (42,)


class Conn:
    def __init__(self):
        self.c = Cursor()

    def cursor(self):
        return self.c

    def commit(self):
        pass


def schedule_path(max_len):
    def fn(ex):
        import AEIC.missions.oag as OAG
        import AEIC.missions.writable_database as WD
        import AEIC.utils.airports as AP
        from AEIC.types import DayOfWeek, TimeOfDay
        Zone.registry = {}
        calls = []
        orc = Oracle()
        db = OAG.OAGDatabase.__new__(OAG.OAGDatabase)
        db._year = 2019
        db._conn = Conn()
        db.warnings = {}
        db.unknown_airports = set()
        o = WD.AirportInfo(1, AP.Airport('AAA', 'a', sym('o_lat', -90.0, 90.0), sym('o_lon', -180.0, 180.0), 0.0, 'US', None), 'Zone/Origin')
        d = WD.AirportInfo(2, AP.Airport('BBB', 'b', sym('d_lat', -90.0, 90.0), sym('d_lon', -180.0, 180.0), 0.0, 'FR', None), 'Zone/Destination')
        unknown = choose('unknown_airport', ['none', 'origin', 'destination'])

        def get_airport(cur_, line, code):
            if (unknown == 'origin' and code == 'AAA') or (unknown == 'destination' and code == 'BBB'):
                db._warn(WD.Warning.Type.UNKNOWN_AIRPORT, line, unknown_airport=code)
                return None
            return o if code == 'AAA' else d
        db._get_or_add_airport = get_airport
        open_from = choose('effective_from_open', [False, True])
        open_to = choose('effective_to_open', [False, True])
        day0 = symint('first_day_ordinal', 17897, 18200)         # a day in 2019
        length = choose('range_length', list(range(1, max_len + 1)))
        if open_from or open_to:
            # open-ended ranges run to the start/end of the data year: concrete, with zones of fixed offset so that the
            # long loop does not fork; the symbolic cases below cover the arithmetic
            efffrom = None if open_from else dt.date(2019, 12, 25)
            effto = None if open_to else dt.date(2019, 1, 9)
        else:
            efffrom, effto = SymDate(day0.t), SymDate(day0.t + (length - 1))
        days = SymDays({dw: sx.symbool(f'operates_{dw.name}') for dw in DayOfWeek}) if not (open_from or open_to) else {DayOfWeek.MONDAY, DayOfWeek.THURSDAY}
        db._make_dow_mask = lambda days_: 'mask'            # the stored bit mask is not part of the property
        dep_h, dep_m = symint('dep_hour', 0, 23), symint('dep_min', 0, 59)
        arr_h, arr_m = symint('arr_hour', 0, 23), symint('arr_min', 0, 59)
        arrday = choose('arrival_day_offset', [-1, 0, 1, 2])
        miles = sym('stated_distance_miles', 0.0, 12000.0)
        e = OAG.CSVEntry(line=7, carrier='XX', fltno=1, depapt='AAA', depctry='US', arrapt='BBB', arrctry='FR', deptim=TimeOfDay(dep_h, dep_m), arrtim=TimeOfDay(arr_h, arr_m),
                         arrday=arrday, days=days, distance=miles, inpacft='738', service='J', seats=100, efffrom=efffrom, effto=effto, stops=0, longest=True)

        class TD:
            """timedelta over solver integers"""
            def __init__(self, days=0, hours=0, minutes=0):
                self.s = _t(days) * 86400 + _t(hours) * 3600 + _t(minutes) * 60

            def total_seconds(self):
                return self.s

        class CT(CivilTime):
            pass
        # timedelta with symbolic components: CivilTime.__add__ uses int(total_seconds()) -> keep symbolic
        def add(self, td):
            s = z3.simplify(self.secs + (td.s if isinstance(td, TD) else int(td.total_seconds())))
            if self.zone is None or self.zone.id == 0:
                return CivilTime(s, self.zone, s)
            return CivilTime(s, self.zone, self.off_at)
        fixed_zone = (open_from or open_to)

        def zone_factory(name):
            return Zone('UTC') if fixed_zone else Zone(name)
        out = dict(calls=calls, orc=orc, db=db, e=e, o=o, d=d, days=days, arrday=arrday, unknown=unknown, open_from=open_from, open_to=open_to, length=length, day0=day0,
                   dep=(dep_h, dep_m), arr=(arr_h, arr_m), miles=miles)
        dow = type('DOW', (), {'from_pandas': staticmethod(lambda t: next(dw for dw in DayOfWeek if cur().branch(t.isoweekday().t == dw.value, concretising=True)))})
        with sx.patched((CivilTime, '__add__', add), (WD, 'pd', FakePD(calls)), (WD, 'ZoneInfo', zone_factory), (WD, 'EPOCH', CivilTime(z3.IntVal(0), Zone('UTC'), z3.IntVal(0))),
                        (WD, 'int', lambda x: x), (WD, 'timedelta', TD), (WD, 'DayOfWeek', dow), (WD, 'GEOD', orc), (WD, 'abs', abs)):
            try:
                out['ok'] = db.add(e, commit=False)
                out['exc'] = None
            except Exception as ex_:
                import traceback
                out['ok'], out['exc'], out['tb'] = None, ex_, traceback.format_exc()
        return out
    return fn


def obligations(o):
    import AEIC.missions.writable_database as WD
    from AEIC.types import DayOfWeek
    from AEIC.units import STATUTE_MILES_TO_KM
    db = o['db']
    rows = db._conn.c.rows
    warns = db.warnings
    if o['exc'] is not None:
        yield 'C13.import.no_error_for_a_well_formed_row', f"{type(o['exc']).__name__}: {o['exc']}", False
        return
    if o['unknown'] != 'none':
        yield 'C13.skip.unknown_airport', '', o['ok'] is False and not rows and 7 in warns and warns[7].warn_type == WD.Warning.Type.UNKNOWN_AIRPORT
        return
    # distance plausibility rule, as documented: implausible iff the airports are closer than 1 km, or the stated
    # distance differs from the geodesic distance by more than 50 km and by more than 10 %
    calls = o['orc'].calls
    yield 'C13.distance.one_geodesic_call', str(len(calls)), len(calls) == 1 and calls[0]['kind'] == 'inv'
    if len(calls) != 1:
        return
    l1, a1, l2, a2 = calls[0]['args']
    oa, da = o['o'].airport, o['d'].airport
    eqs = lambda x, y: sx.SymBool(sx.lift(x) == sx.lift(y))       # noqa
    def same(x, y):
        return z3.simplify(sx.lift(x) == sx.lift(y)).eq(z3.BoolVal(True)) if any(isinstance(q, (sx.SymFloat, z3.ExprRef)) for q in (x, y)) else x == y
    o['signature'] = ('GEOD.inv(origin.lat, origin.lon, destination.lat, destination.lon): latitude and longitude swapped for both airports'
                      if same(l1, oa.latitude) and same(a1, oa.longitude) and same(l2, da.latitude) and same(a2, da.longitude) else 'other argument order')
    yield 'C13.distance.geodesic_between_the_airports_in_lon_lat_order', '', sx.sym_or(
        sx.sym_and(eqs(l1, oa.longitude), eqs(a1, oa.latitude), eqs(l2, da.longitude), eqs(a2, da.latitude)),
        sx.sym_and(eqs(l1, da.longitude), eqs(a1, da.latitude), eqs(l2, oa.longitude), eqs(a2, oa.latitude)))
    gc_km = calls[0]['res'][2] / 1000.0
    given = o['miles'] * STATUTE_MILES_TO_KM
    diff = abs(given - gc_km)
    implausible = sx.sym_or(gc_km < 1.0, sx.sym_and(given > 0.0, diff > 50.0, diff * 100.0 > gc_km * 10.0))
    if o['ok'] is False:
        yield 'C13.skip.only_for_documented_reasons', 'skipped although airports known', implausible
        yield 'C13.skip.implausible_distance_recorded', '', (not rows) and 7 in warns and warns[7].warn_type in (WD.Warning.Type.ZERO_DISTANCE, WD.Warning.Type.SUSPICIOUS_DISTANCE)
        return
    yield 'C13.skip.implausible_distance_is_skipped', '', sx.sym_not(implausible)
    # the dates handed to the expansion are the defaulted effective dates
    rng = [c for c in o['calls']]
    want_from = dt.date(2019, 1, 1) if o['open_from'] else o['e'].efffrom
    want_to = dt.date(2019, 12, 31) if o['open_to'] else o['e'].effto
    rng = [c for c in rng if c[1] is not None]             # date_range(a, b) calls; other ways of walking the range are judged by the instances below
    if len(rng) == 1:
        yield 'C13.range.expansion_uses_defaulted_effective_dates', f'{[(type(a).__name__, type(b).__name__) for a, b, _ in rng]}', _same_date(rng[0][0], want_from) and _same_date(rng[0][1], want_to)
    # one flight record, count stored = instances inserted
    st = db._conn.c.statements
    flights = [s_ for s_ in st if 'INSERT INTO flights' in s_[0]]
    yield 'C13.flight.exactly_one_record', str(len(flights)), len(flights) == 1
    upd = [s_ for s_ in st if 'UPDATE flights SET number_of_flights' in s_[0]]
    yield 'C13.flight.count_recorded_is_number_of_instances', f'{[u[1] for u in upd]} rows={len(rows)}', len(upd) == 1 and upd[0][1][0] == len(rows) and upd[0][1][1] == 42
    if flights:
        params = flights[0][1]
        odp = [p for p in params if isinstance(p, str) and len(p) == 6]
        yield 'C13.flight.route_key_is_direction_independent', str(odp), odp == ['AAABBB']
    if o['open_from'] or o['open_to']:
        first = want_from
        last = want_to
        expected = sum(1 for k in range((last - first).days + 1) if (first + dt.timedelta(days=k)).isoweekday() in (1, 4))
        # all zones are UTC here, so every instance has the same order of arrival and departure
        dh, dm = o['dep']
        ah, am = o['arr']
        in_order = _decide(sx.SymBool(o['arrday'] * 86400 + ah.t * 3600 + am.t * 60 >= dh.t * 3600 + dm.t * 60))
        if in_order is None:
            yield 'C13.instances.presence_decided_on_path', 'open-ended', False
            return
        expected = expected if in_order else 0
        yield 'C13.instances.open_ended_range_counts_every_operating_day_of_the_year', f'{len(rows)} vs {expected}', len(rows) == expected
        return
    # symbolic range: one instance per date in range on an operating weekday, unless arrival precedes departure
    dep_h, dep_m = o['dep']
    arr_h, arr_m = o['arr']
    zo, zd = 1, 2
    exp_rows = []
    dropped = []
    for k in range(o['length']):
        day = o['day0'].t + k
        wd = (day + 3) % 7 + 1
        operates = o['days'].term(wd)
        dep_local = day * 86400 + dep_h.t * 3600 + dep_m.t * 60
        arr_local = (day + o['arrday']) * 86400 + arr_h.t * 3600 + arr_m.t * 60
        dep_utc = dep_local - OFF(z3.IntVal(zo), dep_local)
        arr_utc = arr_local - OFF(z3.IntVal(zd), arr_local)
        exp_rows.append((operates, dep_utc, arr_utc))
    # the explorer concretised weekdays, so on this path `operates` has a definite truth value for each day; match rows in order
    idx = 0
    for k, (operates, dep_utc, arr_utc) in enumerate(exp_rows):
        present = sx.SymBool(z3.And(operates, arr_utc >= dep_utc))
        if idx < len(rows):
            r = rows[idx]
            match = sx.SymBool(z3.And(_t(r[0]) == dep_utc, _t(r[1]) == arr_utc))
            # advance if this day produced the row
            adv = _decide(present)
            if adv is None:
                yield 'C13.instances.presence_decided_on_path', f'day {k}', False
                return
            if adv:
                yield 'C13.instances.departure_and_arrival_are_the_utc_instants', f'day {k}', match
                yield 'C13.instances.day_number_is_days_since_epoch_of_departure', f'day {k}', sx.SymBool(_t(r[2]) == dep_utc / 86400)
                yield 'C13.instances.belongs_to_the_flight', f'day {k}', r[3] == 42
                idx += 1
        else:
            yield 'C13.instances.no_instance_missing', f'day {k}', sx.sym_not(present)
        mis = sx.SymBool(z3.And(operates, arr_utc < dep_utc))
        dropped.append(mis)
    yield 'C13.instances.no_extra_instance', f'{len(rows)} rows, {idx} matched', idx == len(rows)
    anymis = sx.sym_or(*dropped) if dropped else False
    has_warn = 7 in warns and warns[7].warn_type == WD.Warning.Type.TIME_MISORDERING
    yield 'C13.instances.misordered_instances_dropped_with_a_warning', f'warning={has_warn}', (anymis if has_warn else sx.sym_not(anymis))


def _decide(b):
    """truth value of a SymBool that the path condition decides (None if it does not)"""
    ex = cur()
    if not isinstance(b, sx.SymBool):
        return bool(b)
    t = ex.feasible(b.t)
    f = ex.feasible(z3.Not(b.t))
    if t and not f:
        return True
    if f and not t:
        return False
    return None


def _same_date(a, b):
    if isinstance(a, SymDate) and isinstance(b, SymDate):
        return a is b or z3.simplify(a.ordinal == b.ordinal).eq(z3.BoolVal(True))
    if isinstance(a, dt.date) and isinstance(b, dt.date):
        return a == b
    return False


def run(job):
    ex = sx.Explorer(purify=False, deadline=time.time() + job.get('deadline_s', 600), max_paths=10 ** 6)
    out = dict(obligations={}, violations=[], samples=[], distinct=set(), unknown=[], outcomes={})
    for p in ex.explore(schedule_path(job['max_len'])):
        if p.exc is not None:
            out['violations'].append(dict(obligation='harness', detail=f'{p.exc!r} {(p.tb or "")[-700:]}', values={}, tags={}))
            continue
        o = p.result
        kind = 'raised' if o['exc'] is not None else ('skipped' if o['ok'] is False else f"{len(o['db']._conn.c.rows)} instances")
        out['outcomes'][kind] = out['outcomes'].get(kind, 0) + 1
        for oid, detail, val in obligations(o):
            d = out['obligations'].setdefault(oid, dict(unsat=0, sat=0, unknown=0))
            if isinstance(val, sx.SymBool):
                r, m = ex.prove(val, pc=list(ex.pc), timeout_ms=20000)
            else:
                r, m = ('unsat', None) if val else ex.check(z3.BoolVal(True), pc=list(ex.pc))
            d[r] += 1
            if r == 'unsat':
                out['distinct'].add((oid, kind, o['arrday'], o['open_from'], o['open_to']))
            elif r == 'sat':
                vals = {k: sx.mval(m, v) for k, v in p.inputs.items()}
                out['violations'].append(dict(obligation=oid, detail=detail, values=vals, tags=dict(open_ended=bool(o['open_from'] or o['open_to']), arrival_day_offset=o['arrday'], what=detail[:50] if 'Error' in detail else '', **({'signature': o.get('signature', '')} if oid.startswith('C13.distance.geodesic') else {}))))
            else:
                out['unknown'].append(f'{oid} {detail}')
        if len(out['samples']) < 3:
            out['samples'].append(dict(outcome=kind, arrival_day_offset=o['arrday'], open_ended=(o['open_from'], o['open_to']), range_length=o['length']))
    out['stats'] = ex.stats
    out['truncated'] = ex.truncated
    out['distinct'] = len(out['distinct'])
    return out


# ---------------------------------------------------------------------------
# replay on the real importer (real pandas, zoneinfo, pyproj, sqlite) with known airports


def real_import(rows, year=2019):
    """imports CSV-like dict rows through the real OAGDatabase; returns (flights rows, schedules rows, warnings)"""
    import os
    import sqlite3
    import tempfile
    from pathlib import Path
    import AEIC
    from AEIC.config import Config
    import AEIC.missions.oag as OAG
    repo = Path(AEIC.__file__).resolve().parents[2]
    os.environ['AEIC_PATH'] = str(repo / 'tests' / 'data')
    Config.reset()
    Config.load(data_path_overrides=[repo / 'tests' / 'data'])
    tmp = tempfile.mkdtemp(prefix='aeic-verif-c13-', dir=os.environ.get('TMPDIR', '/tmp'))
    try:
        dbf = os.path.join(tmp, 'db.sqlite')
        res = []
        with OAG.OAGDatabase(dbf, year) as db:
            for i, row in enumerate(rows):
                e = OAG.CSVEntry.from_csv_row(row, i + 2)
                try:
                    res.append(('added' if db.add(e) else 'skipped') if e is not None else 'invalid')
                except Exception as ex_:  # noqa
                    res.append(f'{type(ex_).__name__}: {str(ex_)[:100]}')
            warns = {k: str(v.warn_type.value) for k, v in db.warnings.items()}
        con = sqlite3.connect(dbf)
        fl = list(con.execute('SELECT id, number_of_flights, od_pair FROM flights'))
        sc = list(con.execute('SELECT flight_id, departure_timestamp, arrival_timestamp, day FROM schedules ORDER BY id'))
        con.close()
        return res, fl, sc, warns
    finally:
        import shutil
        shutil.rmtree(tmp, ignore_errors=True)
        Config.reset()


def csv_row(**kw):
    base = dict(carrier='XX', fltno='12', depapt='LAX', depctry='US', arrapt='JFK', arrctry='US', deptim='2230', arrtim='0645', arrday='1', days='1234567', distance='2475', inpacft='738',
                service='J', seats='160', efffrom='20190308', effto='20190311', stops='0', longest='L', operating='', genacft='738')
    base.update(kw)
    return base


def distance_rule_on_real_code():
    """the real _distance_check with the real geodesic library against the documented rule on a few airport pairs"""
    import pyproj
    import AEIC.missions.writable_database as WD
    import AEIC.utils.airports as AP
    g = pyproj.Geod(ellps='WGS84')
    pts = dict(BOS=(42.3643, -71.0052), LAX=(33.9425, -118.408), SIN=(1.35019, 103.994), SYD=(-33.9461, 151.177), KEF=(63.985, -22.6056), NEAR=(42.3650, -71.0060))
    out = []
    for a, b in (('BOS', 'LAX'), ('SIN', 'SYD'), ('KEF', 'BOS'), ('BOS', 'NEAR'), ('LAX', 'SIN')):
        (la, lo), (lb, lob) = pts[a], pts[b]
        true_km = g.inv(lo, la, lob, lb)[2] / 1000.0
        for stated in (true_km, true_km * 1.09, true_km * 1.2 + 60, true_km * 0.5, true_km + 40.0, 0.0):
            db = WD.WritableDatabase.__new__(WD.WritableDatabase)
            db.warnings = {}
            oi = WD.AirportInfo(1, AP.Airport(a, a, la, lo, 0.0, 'US', None), 'UTC')
            di = WD.AirportInfo(2, AP.Airport(b, b, lb, lob, 0.0, 'US', None), 'UTC')
            got = db._distance_check(1, oi, di, stated)
            diff = abs(stated - true_km)
            want = not (true_km < 1.0 or (stated > 0 and diff > 50.0 and 100 * diff / true_km > 10.0))
            if got != want:
                out.append(f'{a}-{b} ({true_km:.0f} km apart) stated {stated:.0f} km: accepted={got}, documented rule says {want}')
    return out[:2]


def replay(v):
    """reproduces the class of the counterexample on the real importer with real time zones"""
    import calendar
    from zoneinfo import ZoneInfo
    oid = v['obligation']
    problems = []
    if oid == 'C13.import.no_error_for_a_well_formed_row' or oid.startswith('C13.range') or 'open_ended' in oid:
        res, fl, sc, w = real_import([csv_row(efffrom='00000000', effto='20190109', days='14', arrday=' ', deptim='0800', arrtim='1600')])
        if res[0] != 'added':
            problems.append(f'open-ended effective-from row: {res[0]}')
        else:
            want = sum(1 for k in range(9) if (dt.date(2019, 1, 1) + dt.timedelta(days=k)).isoweekday() in (1, 4))
            if len(sc) != want or not fl or fl[0][1] != want:
                problems.append(f'open-ended effective-from row: {len(sc)} instances, count {fl and fl[0][1]}, expected {want}')
    if oid.startswith('C13.distance') or oid.startswith('C13.skip'):
        problems += distance_rule_on_real_code()
    if oid.startswith('C13.distance'):
        res, fl, sc, w = real_import([csv_row(depapt='BOS', arrapt='LAX', distance='2611', deptim='0800', arrtim='1130', arrday=' ', efffrom='20190305', effto='20190305', days='2'),
                                      csv_row(depapt='BOS', arrapt='LAX', distance='500', deptim='0800', arrtim='1130', arrday=' ', efffrom='20190305', effto='20190305', days='2')])
        if res[0] != 'added':
            problems.append(f'plausible BOS-LAX row (2611 miles stated): {res[0]} {w}')
        if res[1] != 'skipped':
            problems.append(f'implausible BOS-LAX row (500 miles stated) was {res[1]}')
    if oid.startswith('C13.instances') and 'open_ended' not in oid:
        for (d0, d1) in (('20190308', '20190311'), ('20191101', '20191104'), ('20190610', '20190612')):
            for arrday, arrt in (('1', '0645'), (' ', '2355'), ('2', '0110')):
                res, fl, sc, w = real_import([csv_row(efffrom=d0, effto=d1, arrday=arrday, arrtim=arrt)])
                first = dt.date(int(d0[:4]), int(d0[4:6]), int(d0[6:]))
                last = dt.date(int(d1[:4]), int(d1[4:6]), int(d1[6:]))
                exp = []
                for k in range((last - first).days + 1):
                    day = first + dt.timedelta(days=k)
                    dep = dt.datetime(day.year, day.month, day.day, 22, 30, tzinfo=ZoneInfo('America/Los_Angeles'))
                    ad = day + dt.timedelta(days=int(arrday.strip() or 0))
                    arr = dt.datetime(ad.year, ad.month, ad.day, int(arrt[:2]), int(arrt[2:]), tzinfo=ZoneInfo('America/New_York'))
                    if arr.timestamp() >= dep.timestamp():
                        exp.append((int(dep.timestamp()), int(arr.timestamp())))
                got = [(s_[1], s_[2]) for s_ in sc]
                if got != exp:
                    bad = [(g, e_) for g, e_ in zip(got, exp) if g != e_][:1]
                    problems.append(f'LAX-JFK {d0}..{d1} arrival offset {arrday!r} {arrt}: {len(got)} instances vs {len(exp)}; first difference (stored, expected) {bad}')
    return bool(problems), f'real importer (pandas, zoneinfo, pyproj, sqlite): {problems[:2]}'
