"""C14: the SQL the mission query classes generate is equivalent, for every row and every parameter value, to a
predicate written from the documentation (translation validation of the generated statements).

The real Filter.to_sql / QueryBase._common_conditions / Query|CountQuery|FrequentFlightQuery.to_sql run with symbolic
parameter values (they only travel through the parameter list); the WHERE text is interpreted by vf.models.sqlmini
over one symbolic joined row and compared with the reference predicate by z3."""
from __future__ import annotations

import re
import time
from datetime import date

import z3

import vf.symex as sx
from vf.symex import choose, cur, sym
from vf.models import sqlmini

KINDS = ['airport', 'country', 'continent', 'bounding_box']
DATES = [date(2019, 3, 9), date(2019, 11, 2)]


class SymStr(str):
    """a code (airport, country, service type...) whose identity is a solver integer"""
    def __new__(cls, name, z):
        o = str.__new__(cls, '§' + name)
        o.z = z
        return o


def code(name):
    ex = cur()
    if ex.concrete:
        return 'K%d' % int(ex.value(name, 0, 10 ** 6))
    v = ex.input(name, 'int')
    ex.assume(z3.And(v >= 0, v <= 10 ** 6))
    return SymStr(name, v)


def pz(p):
    """z3 value of a parameter"""
    if isinstance(p, SymStr):
        return p.z
    if isinstance(p, (sx.SymFloat, sx.SymInt)):
        return p.t
    if isinstance(p, bool):
        raise sqlmini.Unsupported('boolean parameter')
    if isinstance(p, int):
        return z3.IntVal(p)
    if isinstance(p, float):
        return sx.lift(p)
    if isinstance(p, str) and re.fullmatch(r'K\d+', p):
        return z3.IntVal(int(p[1:]))
    raise sqlmini.Unsupported(f'parameter {p!r}')


VARY = {'simple', 'spatial', 'query'}


def pick(group, name, options, default):
    """enumerate `options` if the group is being varied in this job, else the default (or, in 'all_set' jobs, the last option)"""
    if group in VARY:
        return choose(name, options)
    if 'all_set' in VARY:
        return options[-1]
    return default


def make_filter(ex):
    """a Filter of solver-chosen shape with symbolic values; returns (filter, description for the reference)"""
    from AEIC.missions.filter import BoundingBox, Filter
    d = {}
    kw = {}
    for f, lo, hi in (('min_distance', 0.0, 2e4), ('max_distance', 0.0, 2e4), ('min_seat_capacity', 0.0, 900.0), ('max_seat_capacity', 0.0, 900.0)):
        if pick('simple', f + '_set', [False, True], False):
            kw[f] = d[f] = sym(f, lo, hi)
    for f in ('service_type', 'aircraft_type'):
        shape = pick('simple', f + '_shape', ['none', 'single', 'list1', 'empty', 'list2'] if f == 'service_type' else ['none', 'list2'], 'none')
        if shape == 'single':
            c = code(f + '0')
            kw[f], d[f] = c, [c]
        elif shape in ('list1', 'list2'):
            cs = [code(f + str(i)) for i in range(1 if shape == 'list1' else 2)]
            kw[f], d[f] = list(cs), cs
        elif shape == 'empty':
            kw[f], d[f] = [], None

    def region(prefix, kind):
        name = (prefix + '_' if prefix else '') + kind
        if kind == 'bounding_box':
            b = BoundingBox(min_latitude=sym(name + '_lat0', -90.0, 90.0), max_latitude=sym(name + '_lat1', -90.0, 90.0),
                            min_longitude=sym(name + '_lon0', -180.0, 180.0), max_longitude=sym(name + '_lon1', -180.0, 180.0))
            kw[name] = b
            return ('bounding_box', b)
        n = pick('spatial', name + '_n', [1, 2], 2)
        single = n == 1 and pick('spatial', name + '_as_str', [False, True], False)
        cs = [code(f'{name}{i}') for i in range(n)]
        kw[name] = cs[0] if single else list(cs)
        return (kind, cs)
    spatial = pick('spatial', 'spatial', ['none', 'combined', 'origin_destination'], 'none')
    d['spatial'] = {}
    if spatial == 'combined':
        d['spatial']['either'] = region('', pick('spatial', 'combined_kind', KINDS, 'country'))
    elif spatial == 'origin_destination':
        ok = pick('spatial', 'origin_kind', ['none'] + KINDS, 'continent')
        dk = pick('spatial', 'destination_kind', ['none'] + KINDS, 'bounding_box')
        if ok != 'none':
            d['spatial']['origin'] = region('origin', ok)
        if dk != 'none':
            d['spatial']['destination'] = region('destination', dk)
    return Filter(**kw), d


def reference(d, row, q):
    """the documented meaning of the query conditions over one joined row"""
    c = row.cols
    conds = []
    if 'min_distance' in d:
        conds.append(c['f.distance'] >= pz(d['min_distance']))
    if 'max_distance' in d:
        conds.append(c['f.distance'] <= pz(d['max_distance']))
    if 'min_seat_capacity' in d:
        conds.append(z3.ToReal(c['f.seat_capacity']) >= pz(d['min_seat_capacity']))
    if 'max_seat_capacity' in d:
        conds.append(z3.ToReal(c['f.seat_capacity']) <= pz(d['max_seat_capacity']))
    for f in ('service_type', 'aircraft_type'):
        if d.get(f):
            conds.append(z3.Or(*[c['f.' + f] == pz(x) for x in d[f]]))

    def inside(airport, reg):
        kind, v = reg
        if kind == 'airport':
            return z3.Or(*[row.iata(airport) == pz(x) for x in v])
        if kind == 'country':
            return z3.Or(*[row.country(airport) == pz(x) for x in v])
        if kind == 'continent':
            return z3.Or(*[row.continent(row.country(airport)) == pz(x) for x in v])
        return z3.And(row.lat(airport) >= pz(v.min_latitude), row.lat(airport) <= pz(v.max_latitude),
                      row.lon(airport) >= pz(v.min_longitude), row.lon(airport) <= pz(v.max_longitude))
    sp = d.get('spatial', {})
    if 'either' in sp:
        conds.append(z3.Or(inside(c['f.origin'], sp['either']), inside(c['f.destination'], sp['either'])))
    if 'origin' in sp:
        conds.append(inside(c['f.origin'], sp['origin']))
    if 'destination' in sp:
        conds.append(inside(c['f.destination'], sp['destination']))
    ts = c['s.departure_timestamp']
    if q.get('start') is not None:
        conds.append(ts >= _midnight(q['start']))
    if q.get('end') is not None:
        conds.append(ts < _midnight(q['end']) + 86400)          # inclusive to 24:00 of the end date
    if q.get('every_nth') and q['every_nth'] > 1:
        first = z3.IntVal((q['start'] - date(1970, 1, 1)).days) if q.get('start') is not None else row.min_day
        conds.append((c['s.day'] - first) % q['every_nth'] == 0)
    if q.get('sample') is not None:
        conds.append(z3.Real('random_0') < pz(q['sample']))
    return z3.And(*conds) if conds else z3.BoolVal(True)


def _midnight(d_):
    import calendar
    return calendar.timegm(d_.timetuple())


def query_path(only_kind=None):
    def fn(ex):
        import AEIC.missions.query as Q
        kind = only_kind or choose('query_kind', ['Query', 'CountQuery', 'FrequentFlightQuery'])
        with_filter = choose('filter', ['none', 'empty', 'set']) if 'query' in VARY else 'set'
        flt, d = (None, {})
        out = dict(kind=kind, with_filter=with_filter, exc=None)
        try:
            if with_filter != 'none':
                if with_filter == 'empty':
                    from AEIC.missions.filter import Filter
                    flt, d = Filter(), {}
                else:
                    flt, d = make_filter(ex)
            q = dict(start=pick('query', 'start_date', [None] + DATES[:1], None), end=pick('query', 'end_date', [None] + DATES[1:], None))
            args = dict(filter=flt, start_date=q['start'], end_date=q['end'])
            if kind == 'Query':
                q['every_nth'] = pick('query', 'every_nth', [None, 1, 3], None)
                q['sample'] = sym('sample', 0.0, 1.0, lo_strict=True) if pick('query', 'sample_set', [False, True], False) else None
                q['limit'] = pick('query', 'limit', [None, 7], None)
                q['offset'] = pick('query', 'offset', [None, 2], None) if q['limit'] else None
                args.update(every_nth=q['every_nth'], sample=q['sample'], limit=q['limit'], offset=q['offset'])
                obj = Q.Query(**args)
            elif kind == 'CountQuery':
                obj = Q.CountQuery(**args)
            else:
                q['limit'] = pick('query', 'ff_limit', [20, 5], 20)
                obj = Q.FrequentFlightQuery(limit=q['limit'], **args)
            sql1, p1 = obj.to_sql()
            p1_copy = list(p1)
            sql2, p2 = obj.to_sql()
            out.update(sql=sql1, params=p1_copy, sql2=sql2, params2=list(p2), params1_after=list(p1), aliased=(p1 is p2), d=d, q=q)
        except Exception as e:
            import traceback
            out['exc'] = e
            out['tb'] = traceback.format_exc()
            out['d'], out['q'] = d, locals().get('q', {})
        return out
    return fn


def obligations(o):
    """yield (id, detail, value[, extra]) ; z3 Bool values are validity queries over all rows"""
    if o['exc'] is not None:
        yield 'C14.no_error_for_a_legal_query', f"{type(o['exc']).__name__}: {o['exc']}", False
        return
    sql, params, q, d = o['sql'], o['params'], o['q'], o['d']
    yield 'C14.text.no_value_in_the_statement_text', sql[:80], '§' not in sql
    yield 'C14.text.placeholders_match_parameters', f"{sql.count('?')} placeholders, {len(params)} parameters", sql.count('?') == len(params)
    row = sqlmini.Row()
    where, _ = sqlmini.where_of(sql)
    try:
        pred, used = sqlmini.interpret_where(where, [pz(p) for p in params], row)
    except sqlmini.Unsupported as e:
        yield 'C14.where.statement_is_in_the_modelled_fragment', str(e), None
        return
    yield 'C14.where.all_parameters_consumed_in_order', f'{used} of {len(params)}', used == len(params)
    ref = reference(d, row, q)
    n_rand = len(row.randoms)
    yield 'C14.where.sampling_condition_applied_exactly_once', f'{n_rand}', n_rand == (1 if q.get('sample') is not None else 0)
    yield 'C14.where.equivalent_to_documented_predicate', where[:200], ('valid', z3.Implies(z3.And(*row.constraints()), pred == ref), row)
    up = re.sub(r'\s+', ' ', sql).upper()
    if o['kind'] == 'Query':
        yield 'C14.text.ordered_by_departure_time', '', 'ORDER BY S.DEPARTURE_TIMESTAMP' in up and up.index('ORDER BY') > up.find('WHERE')
        lim = q.get('limit')
        want = (f' LIMIT {lim}' + (f' OFFSET {q["offset"]}' if q.get('offset') is not None else '')) if lim else ''
        tail = up.split('ORDER BY S.DEPARTURE_TIMESTAMP')[-1]
        yield 'C14.text.limit_and_offset', tail, tail.strip() == want.strip().upper()
        yield 'C14.text.joins', '', all(j in up for j in ('FROM SCHEDULES S', 'JOIN FLIGHTS F ON F.ID = S.FLIGHT_ID', 'JOIN AIRPORTS AO ON F.ORIGIN = AO.ID', 'JOIN AIRPORTS AD ON F.DESTINATION = AD.ID'))
    elif o['kind'] == 'CountQuery':
        yield 'C14.text.counts_schedule_instances', up[:60], up.startswith('SELECT COUNT(S.ID) FROM SCHEDULES S') and (not where or 'JOIN FLIGHTS F ON F.ID = S.FLIGHT_ID' in up)
    else:
        ok = ('COUNT(S.ID) AS NFLIGHTS' in up and 'GROUP BY OD_PAIR' in up and 'ORDER BY NFLIGHTS DESC' in up and up.rstrip().endswith(f'LIMIT {q["limit"]}')
              and 'SUBSTRING(OD_PAIR, 1, 3) AS AIRPORT1' in up and 'SUBSTRING(OD_PAIR, 4) AS AIRPORT2' in up and 'JOIN FLIGHTS F ON S.FLIGHT_ID = F.ID' in up)
        yield 'C14.text.frequent_routes_grouped_counted_ordered', up[-120:], ok
    # a query object is a value: building the SQL again gives the same statement and an independent parameter list
    same_params = len(o['params2']) == len(params) and all(_same(a, b) for a, b in zip(o['params2'], params))
    yield 'C14.value.second_to_sql_gives_the_same_statement', f"{len(o['params2'])} vs {len(params)} parameters", o['sql2'] == sql and same_params
    yield 'C14.value.first_parameter_list_not_changed_by_second_call', '', len(o['params1_after']) == len(params) and not o['aliased']


def _same(a, b):
    return a is b or (not sx.is_sym(a) and not sx.is_sym(b) and a == b)


def normalize_path(ex):
    """the spatial compatibility rule over all 4096 presence patterns"""
    from AEIC.missions.filter import BoundingBox, Filter
    kw, counts = {}, dict(combined=0, origin=0, destination=0)
    for kind in KINDS:
        for pre, grp in (('', 'combined'), ('origin_', 'origin'), ('destination_', 'destination')):
            if choose(f'{pre}{kind}_present', [False, True]):
                kw[pre + kind] = BoundingBox(0.0, 1.0, 0.0, 1.0) if kind == 'bounding_box' else ['K1']
                counts[grp] += 1
    try:
        Filter(**kw).to_sql()
        raised = None
    except ValueError as e:
        raised = e
    except Exception as e:  # noqa
        raised = e
    return dict(counts=counts, raised=raised, fields=sorted(kw))


def normalize_obligations(o):
    c = o['counts']
    legal = (c['combined'] == 1 and c['origin'] == 0 and c['destination'] == 0) or (c['combined'] == 0 and c['origin'] <= 1 and c['destination'] <= 1)
    r = o['raised']
    if legal:
        yield 'C14.spatial.legal_combination_accepted', f"{o['fields']}: {r!r}", r is None
    else:
        yield 'C14.spatial.illegal_combination_refused', f"{o['fields']}: {r!r}", isinstance(r, ValueError) and 'spatial' in str(r)


def run(job):
    global VARY
    VARY = set(job.get('vary', ['simple', 'spatial', 'query']))
    ex = sx.Explorer(purify=False, deadline=time.time() + job.get('deadline_s', 600), max_paths=10 ** 6)
    out = dict(obligations={}, violations=[], samples=[], distinct=set(), unknown=[], solver_s=0.0)
    if job['kind'] == 'normalize':
        fn, obl = normalize_path, normalize_obligations
    else:
        fn, obl = query_path(job.get('query_kind')), obligations
    for p in ex.explore(fn):
        if p.exc is not None:
            out['violations'].append(dict(obligation='harness', detail=f'{p.exc!r} {(p.tb or "")[-600:]}', values={}, tags={}))
            continue
        o = p.result
        for item in obl(o):
            oid, detail, val = item[0], item[1], item[2]
            d = out['obligations'].setdefault(oid, dict(unsat=0, sat=0, unknown=0))
            model = None
            if val is None:
                d['unknown'] += 1
                out['unknown'].append(f'{oid}: {detail}')
                continue
            if isinstance(val, tuple):
                t0 = time.time()
                s = z3.Solver()
                s.set('timeout', 20000)
                s.add(*ex.pc)
                s.add(z3.Not(val[1]))
                r = str(s.check())
                out['solver_s'] += time.time() - t0
                if r == 'sat':
                    model = s.model()
            else:
                r = 'unsat' if val else 'sat'
                if not val:
                    rr, model = ex.check(z3.BoolVal(True), pc=list(ex.pc))
            d[r] += 1
            if r == 'unsat':
                out['distinct'].add((oid, tuple(p.trace)))
            elif r == 'sat':
                vals = {k: sx.mval(model, v) for k, v in p.inputs.items()} if model is not None else {}
                rowvals = _row_from_model(model, val[2]) if isinstance(val, tuple) and model is not None else None
                shape = _shape(o)
                out['violations'].append(dict(obligation=oid, detail=f'{detail} :: shape {shape}', values=vals, row=rowvals,
                                              tags=dict(query=o.get('kind', 'filter'), filter=o.get('with_filter'), dates=_dates(o), what=(str(o.get('exc'))[:40] if o.get('exc') else oid.split('.')[-1]))))
            else:
                out['unknown'].append(oid)
        if len(out['samples']) < 2 and o.get('sql'):
            out['samples'].append(dict(kind=o['kind'], sql=o['sql'][-220:], n_params=len(o['params'])))
    out['stats'] = ex.stats
    out['stats']['solver_s'] = out['stats'].get('solver_s', 0) + out['solver_s']
    out['truncated'] = ex.truncated
    out['distinct'] = len(out['distinct'])
    return out


def _shape(o):
    d = o.get('d') or {}
    return dict(fields=sorted(k for k in d if k != 'spatial'), spatial={k: v[0] for k, v in d.get('spatial', {}).items()}, q={k: str(v) for k, v in (o.get('q') or {}).items() if v is not None})


def _dates(o):
    q = o.get('q') or {}
    return ('start' if q.get('start') else '') + ('+end' if q.get('end') else '')


def _row_from_model(m, row):
    def ev(t):
        v = m.eval(t, model_completion=True)
        if z3.is_int_value(v):
            return v.as_long()
        return float(v.as_fraction()) if z3.is_rational_value(v) else str(v)
    o, dst = row.cols['f.origin'], row.cols['f.destination']
    r = {k: ev(v) for k, v in row.cols.items()}
    for nme, a in (('origin', o), ('destination', dst)):
        r[nme + '_iata'] = ev(row.iata(a))
        r[nme + '_country'] = ev(row.country(a))
        r[nme + '_continent'] = ev(row.continent(row.country(a)))
        r[nme + '_lat'] = ev(row.lat(a))
        r[nme + '_lon'] = ev(row.lon(a))
    r['min_day'] = ev(row.min_day)
    return r


def replay(job, v):
    """real sqlite: a database holding the counterexample row; the real query object's SQL must select the row iff the
    documented predicate holds for it"""
    import sqlite3
    global VARY
    VARY = set(job.get('vary', ['simple', 'spatial', 'query']))
    fn = query_path(job.get('query_kind'))
    run_ = sx.ConcreteRun(v['values'])
    o, exc = run_.run(fn)
    if exc is not None:
        return False, f'harness raised {exc!r}'
    if o['exc'] is not None:
        return True, f"real query object: {type(o['exc']).__name__}: {o['exc']}"
    oid = v['obligation']
    if not oid.startswith('C14.where'):
        bad = [(i[0], i[1]) for i in obligations(o) if i[0] == oid and i[2] is not None and not isinstance(i[2], tuple) and not i[2]]
        return bool(bad), f'real query object (concrete parameter values): {bad[:2]}'
    r = v.get('row')
    if not r:
        return False, 'no row in the counterexample'
    K = lambda n: 'K%d' % int(n)   # noqa
    con = sqlite3.connect(':memory:')
    c = con.cursor()
    c.executescript('''CREATE TABLE airports(id INTEGER PRIMARY KEY, iata_code TEXT, country TEXT);
        CREATE TABLE countries(code TEXT PRIMARY KEY, continent TEXT);
        CREATE TABLE airport_location_idx(id INTEGER PRIMARY KEY, min_latitude REAL, max_latitude REAL, min_longitude REAL, max_longitude REAL);
        CREATE TABLE flights(id INTEGER PRIMARY KEY, carrier TEXT, flight_number TEXT, origin INTEGER, destination INTEGER, service_type TEXT, aircraft_type TEXT, engine_type TEXT,
                             distance REAL, seat_capacity INTEGER, od_pair TEXT);
        CREATE TABLE schedules(id INTEGER PRIMARY KEY, departure_timestamp INTEGER, arrival_timestamp INTEGER, flight_id INTEGER, day INTEGER);''')
    for nme in ('origin', 'destination'):
        c.execute('INSERT OR REPLACE INTO airports VALUES (?,?,?)', (r['f.' + nme], K(r[nme + '_iata']), K(r[nme + '_country'])))
        c.execute('INSERT OR REPLACE INTO countries VALUES (?,?)', (K(r[nme + '_country']), K(r[nme + '_continent'])))
        c.execute('INSERT OR REPLACE INTO airport_location_idx VALUES (?,?,?,?,?)', (r['f.' + nme], r[nme + '_lat'], r[nme + '_lat'], r[nme + '_lon'], r[nme + '_lon']))
    c.execute('INSERT INTO flights VALUES (1,?,?,?,?,?,?,?,?,?,?)', ('XX', '1', r['f.origin'], r['f.destination'], K(r['f.service_type']), K(r['f.aircraft_type']), None, r['f.distance'], r['f.seat_capacity'], 'AAABBB'))
    c.execute('INSERT INTO schedules VALUES (1,?,?,1,?)', (r['s.departure_timestamp'], r['s.departure_timestamp'] + 3600, r['s.day']))
    # a second flight far away (never selected by any spatial filter) carrying the minimum day
    c.execute('INSERT INTO schedules VALUES (2,?,?,1,?)', (r['s.departure_timestamp'] - 10 ** 9, r['s.departure_timestamp'] - 10 ** 9 + 1, r['min_day']))
    sql, params = o['sql'], o['params']
    if o['q'].get('sample') is not None:
        return False, 'sampling queries are not replayed (random)'
    if o['kind'] == 'Query':
        sql = re.sub(r' LIMIT \d+( OFFSET \d+)?$', '', sql)
        got = any(row_[2] == 1 for row_ in c.execute(sql, params))
    elif o['kind'] == 'CountQuery':
        base = next(c.execute(sql, params))[0]
        c.execute('DELETE FROM schedules WHERE id = 1')
        got = base - next(c.execute(sql, params))[0] == 1
    else:
        return False, 'frequent-route statements are not replayed row-wise'
    # expected truth for this concrete row: the reference predicate evaluated by z3 on concrete values
    row2 = sqlmini.Row()
    ref = reference(o['d'], row2, o['q'])
    s = z3.Solver()
    subst = [(row2.cols[k], z3.RealVal(str(r[k])) if k == 'f.distance' else z3.IntVal(int(r[k]))) for k in row2.cols]
    s.add(*[a == b for a, b in subst])
    s.add(row2.min_day == int(r['min_day']))
    for nme in ('origin', 'destination'):
        a = z3.IntVal(int(r['f.' + nme]))
        s.add(row2.iata(a) == int(r[nme + '_iata']), row2.country(a) == int(r[nme + '_country']), row2.continent(z3.IntVal(int(r[nme + '_country']))) == int(r[nme + '_continent']),
              row2.lat(a) == z3.RealVal(str(r[nme + '_lat'])), row2.lon(a) == z3.RealVal(str(r[nme + '_lon'])))
    s.push()
    s.add(ref)
    want = s.check() == z3.sat
    return got != want, f"real sqlite on a database holding the counterexample instance (departure {r['s.departure_timestamp']}): selected={got}, documented predicate={want}"
