"""C15: real GroundTrack / Mission.gc_distance over an abstract geodesic oracle.

GEOD.inv / GEOD.fwd are recording stubs returning fresh symbols (contract: distances >= 0).  Obligations are
dataflow identities: which oracle call produced the returned position, and with exactly which arguments
(waypoint, azimuth, distance offset) -- decided by z3 for every waypoint layout and every query distance.
That pyproj itself is a correct WGS-84 implementation is trusted, not checked."""
from __future__ import annotations

import time

import z3

import vf.symex as sx
from vf.symex import choose, cur, sym, symbool


class Oracle:
    def __init__(self):
        self.calls = []

    def _one_inv(self, lon1, lat1, lon2, lat2):
        k = len(self.calls)
        az, baz, d = sym(f'inv{k}_az', -180.0, 180.0), sym(f'inv{k}_baz', -180.0, 180.0), sym(f'inv{k}_dist', 0.0)
        self.calls.append(dict(kind='inv', args=(lon1, lat1, lon2, lat2), res=(az, baz, d)))
        return az, baz, d

    def inv(self, lon1, lat1, lon2, lat2):
        if isinstance(lon1, (list, tuple)):
            rs = [self._one_inv(*a) for a in zip(lon1, lat1, lon2, lat2)]
            return [r[0] for r in rs], [r[1] for r in rs], [r[2] for r in rs]
        return self._one_inv(lon1, lat1, lon2, lat2)

    def fwd(self, lon, lat, az, dist):
        k = len(self.calls)
        lo, la, baz = sym(f'fwd{k}_lon', -180.0, 180.0), sym(f'fwd{k}_lat', -90.0, 90.0), sym(f'fwd{k}_baz', -180.0, 180.0)
        self.calls.append(dict(kind='fwd', args=(lon, lat, az, dist), res=(lo, la, baz)))
        return lo, la, baz


def eq(a, b):
    if sx.is_sym(a) or sx.is_sym(b):
        return sx.SymBool(sx.lift(a) == sx.lift(b))
    return a == b


def build_track(n_wp, allow_overstep):
    from AEIC.trajectories.ground_track import GroundTrack
    from AEIC.types import Location
    wps = [Location(sym(f'wp{i}_lon', -180.0, 180.0), sym(f'wp{i}_lat', -90.0, 90.0)) for i in range(n_wp)]
    return GroundTrack(wps, allow_overstep=allow_overstep), wps


def path_track(n_wp):
    def fn(ex):
        import AEIC.trajectories.ground_track as GT
        orc = Oracle()
        out = dict(orc=orc, n=n_wp)
        with sx.patched((GT, 'GEOD', orc)):
            allow = choose('allow_overstep', [False, True])
            gt, wps = build_track(n_wp, allow)
            out.update(gt=gt, wps=wps, allow=allow, n_init_calls=len(orc.calls), index=list(gt.index), az=list(gt.azimuths))
            op = choose('op', ['location', 'step'])
            out['op'] = op
            a = sym('a', -10.0, 1e8)
            b = sym('b', -10.0, 1e8) if op == 'step' else 0.0
            out['a'], out['b'] = a, b
            try:
                out['res'] = gt.location(a) if op == 'location' else gt.step(a, b)
                out['exc'] = None
            except Exception as e:
                out['res'], out['exc'] = None, e
        return out
    return fn


def track_obligations(o):
    from AEIC.trajectories.ground_track import GroundTrack
    orc, wps, n = o['orc'], o['wps'], o['n']
    index, az = o['index'], o['az']
    # construction: one inverse call per consecutive waypoint pair with (lon, lat, lon, lat); index = cumulative sums
    init = orc.calls[:o['n_init_calls']]
    yield 'C15.track.one_inverse_call_per_segment', str(len(init)), len(init) == n - 1 and all(c['kind'] == 'inv' for c in init)
    run = 0.0
    yield 'C15.track.index_starts_at_zero', '', eq(index[0], 0.0)
    for i, c in enumerate(init[: n - 1]):
        l1, a1, l2, a2 = c['args']
        yield 'C15.track.segment_endpoints_in_lon_lat_order', f'segment {i}', sx.sym_and(eq(l1, wps[i].longitude), eq(a1, wps[i].latitude), eq(l2, wps[i + 1].longitude), eq(a2, wps[i + 1].latitude))
        run = run + c['res'][2]
        yield 'C15.track.total_is_sum_of_segment_geodesics', f'index[{i + 1}]', eq(index[i + 1], run)
        yield 'C15.track.azimuths_are_forward_azimuths', f'segment {i}', eq(az[i], c['res'][0])
    yield 'C15.track.total_distance', '', eq(o['gt'].total_distance, run)
    total = index[-1]
    a, b = o['a'], o['b']
    d = a + b if o['op'] == 'step' else a
    later = orc.calls[o['n_init_calls']:]
    exc, res = o['exc'], o['res']
    inside = sx.sym_and(d >= 0.0, d <= total)
    if o['op'] == 'step':
        bad_args = sx.sym_or(a < 0.0, b < 0.0)
    else:
        bad_args = False
    if exc is not None:
        yield 'C15.refusal.is_a_groundtrack_exception', repr(exc), isinstance(exc, GroundTrack.Exception)
        if o['op'] == 'location':
            yield 'C15.refusal.only_when_outside', '', sx.sym_not(inside)
        else:
            from_in = sx.sym_and(a >= 0.0, a <= total)
            # documented refusals: negative arguments; outside the track without overstep; crossing a waypoint without overstep
            crossing = False
            if not o['allow'] and n > 2:
                crossing = sx.sym_or(*[sx.sym_and(a < index[k], d > index[k]) for k in range(1, n - 1)])
            reason = sx.sym_or(bad_args, sx.sym_and(not o['allow'], sx.sym_not(sx.sym_and(from_in, inside))), crossing)
            yield 'C15.refusal.only_for_documented_reasons', repr(exc), reason
        return
    # returned a point
    if o['op'] == 'step':
        yield 'C15.step.negative_arguments_refused', '', sx.sym_not(bad_args)
        if not o['allow']:
            yield 'C15.step.out_of_range_refused_without_overstep', '', sx.sym_and(a >= 0.0, a <= total, inside)
    else:
        yield 'C15.location.out_of_range_refused', '', inside
    # azimuth convention
    yield 'C15.azimuth.in_0_360', '', sx.sym_and(res.azimuth >= 0.0, res.azimuth < 360.0)
    fwd = [c for c in later if c['kind'] == 'fwd']
    inv = [c for c in later if c['kind'] == 'inv']
    over = o['op'] == 'step' and o['allow']
    if not fwd:
        # boundary: exactly a waypoint at the start or the end of the track
        at_start = sx.sym_and(eq(res.location.longitude, wps[0].longitude), eq(res.location.latitude, wps[0].latitude), eq(d, 0.0))
        at_end = sx.sym_and(eq(res.location.longitude, wps[-1].longitude), eq(res.location.latitude, wps[-1].latitude), eq(d, total))
        yield 'C15.location.boundary_returns_end_waypoint', '', sx.sym_or(at_start, at_end)
        return
    yield 'C15.location.single_forward_call', str(len(fwd)), len(fwd) == 1
    c = fwd[0]
    lon0, lat0, az0, dist0 = c['args']
    yield 'C15.location.position_is_forward_result', '', sx.sym_and(eq(res.location.longitude, c['res'][0]), eq(res.location.latitude, c['res'][1]))
    # the forward call starts at the waypoint beginning the segment that contains d, along that segment's azimuth,
    # by exactly d minus the cumulative distance of that waypoint; beyond the end (overstep) it continues the LAST
    # segment from its start waypoint
    alts = []
    for k in range(1, n):
        in_seg = sx.sym_and(d >= index[k - 1], d <= index[k])
        if k == n - 1 and over:
            in_seg = sx.sym_or(in_seg, d > total)
        alts.append(sx.sym_and(in_seg, eq(lon0, wps[k - 1].longitude), eq(lat0, wps[k - 1].latitude), eq(az0, az[k - 1]), eq(dist0, d - index[k - 1])))
    yield 'C15.location.forward_from_segment_start_by_exact_offset', '', sx.sym_or(*alts)
    if inv:
        ci = inv[-1]
        yield 'C15.azimuth.reported_is_normalised_oracle_azimuth', '', sx.SymBool(_congruent(res.azimuth, ci['res'][0]))
        l1, a1, l2, a2 = ci['args']
        if not (o['op'] == 'step' and sx.is_sym(d) and False):
            # azimuth is measured between the returned point and a waypoint of the same segment, in (lon, lat) order
            ends = [(wps[k].longitude, wps[k].latitude) for k in range(n)]
            ok = []
            for (wl, wa) in ends:
                ok.append(sx.sym_and(eq(l1, c['res'][0]), eq(a1, c['res'][1]), eq(l2, wl), eq(a2, wa)))
                ok.append(sx.sym_and(eq(l2, c['res'][0]), eq(a2, c['res'][1]), eq(l1, wl), eq(a1, wa)))
            yield 'C15.azimuth.measured_between_point_and_a_waypoint', '', sx.sym_or(*ok)


def _congruent(a, b):
    """a == b (mod 360) with a in [0,360)"""
    a, b = sx.lift(a), sx.lift(b)
    return z3.Or(a == b, a == b + 360, a == b - 360)


def path_mission():
    def fn(ex):
        import AEIC.missions.mission as MM
        from AEIC.types import Position
        orc = Oracle()
        m = MM.Mission.__new__(MM.Mission)
        o = Position(sym('o_lon', -180.0, 180.0), sym('o_lat', -90.0, 90.0), sym('o_alt', 0.0, 5000.0))
        d = Position(sym('d_lon', -180.0, 180.0), sym('d_lat', -90.0, 90.0), sym('d_alt', 0.0, 5000.0))
        m.__dict__['origin_position'] = o
        m.__dict__['destination_position'] = d
        with sx.patched((MM, 'GEOD', orc)):
            val = MM.Mission.__dict__['gc_distance'].func(m)
        return dict(orc=orc, o=o, d=d, val=val)
    return fn


def mission_obligations(r):
    calls = r['orc'].calls
    yield 'C15.mission.single_inverse_call', str(len(calls)), len(calls) == 1 and calls[0]['kind'] == 'inv'
    if len(calls) != 1:
        return
    l1, a1, l2, a2 = calls[0]['args']
    o, d = r['o'], r['d']
    fwd_order = sx.sym_and(eq(l1, o.longitude), eq(a1, o.latitude), eq(l2, d.longitude), eq(a2, d.latitude))
    rev_order = sx.sym_and(eq(l1, d.longitude), eq(a1, d.latitude), eq(l2, o.longitude), eq(a2, o.latitude))
    yield 'C15.mission.distance_between_airports_in_lon_lat_order', '', sx.sym_or(fwd_order, rev_order)
    yield 'C15.mission.value_is_the_geodesic_distance', '', eq(r['val'], calls[0]['res'][2])


def explore(fn, obligations, tagger, deadline_s=300):
    ex = sx.Explorer(purify=False, deadline=time.time() + deadline_s)
    out = dict(obligations={}, violations=[], samples=[], distinct=set(), unknown=[])
    for p in ex.explore(fn):
        if p.exc is not None:
            out['violations'].append(dict(obligation='harness', detail=f'{p.exc!r} {(p.tb or "")[-500:]}', values={}, tags={}))
            continue
        o = p.result
        for oid, detail, val in obligations(o):
            d = out['obligations'].setdefault(oid, dict(unsat=0, sat=0, unknown=0))
            if isinstance(val, sx.SymBool):
                r, m = ex.prove(val, pc=p.pc)
            else:
                r, m = ('unsat', None) if val else ex.check(z3.BoolVal(True), pc=p.pc)
            d[r] += 1
            if r == 'unsat':
                out['distinct'].add((oid, tuple(p.trace)))
            elif r == 'sat':
                vals = {k: sx.mval(m, v) for k, v in p.inputs.items()}
                out['violations'].append(dict(obligation=oid, detail=detail, values=vals, tags=tagger(o)))
            else:
                out['unknown'].append(oid)
        if len(out['samples']) < 3:
            out['samples'].append({k: str(v)[:100] for k, v in o.items() if k in ('op', 'allow', 'exc', 'n', 'val')})
    out['stats'] = ex.stats
    out['truncated'] = ex.truncated
    out['distinct'] = len(out['distinct'])
    return out


def run_job(job):
    if job['kind'] == 'mission':
        return explore(path_mission(), mission_obligations, lambda o: dict(part='mission'))
    return explore(path_track(job['n']), track_obligations, lambda o: dict(part='track', op=o['op'], waypoints=o['n'], allow_overstep=o['allow'], outcome='raised' if o['exc'] is not None else 'returned'))


# ---------------------------------------------------------------------------
# replay with the real pyproj


def replay(job, v):
    """Rebuilds the situation with real pyproj: waypoints from the model (coordinates), the query distances scaled to
    the real track (the model's distances belong to the abstract metric), and checks the property numerically against
    an independent pyproj computation."""
    import math
    from pyproj import Geod
    G = Geod(ellps='WGS84')
    vals = v['values']
    if job['kind'] == 'mission':
        import AEIC.missions.mission as MM
        from AEIC.types import Position
        m = MM.Mission.__new__(MM.Mission)
        pts = [(vals.get('o_lon', 0.0), vals.get('o_lat', 0.0)), (vals.get('d_lon', 0.0), vals.get('d_lat', 0.0))]
        trials = [pts, [(-71.0, 42.36), (-84.43, 33.64)], [(2.55, 49.0), (139.78, 35.55)]]
        for (olon, olat), (dlon, dlat) in trials:
            if abs(olat) > 90 or abs(dlat) > 90:
                continue
            m = MM.Mission.__new__(MM.Mission)
            m.__dict__['origin_position'] = Position(olon, olat, 0.0)
            m.__dict__['destination_position'] = Position(dlon, dlat, 0.0)
            try:
                got = MM.Mission.__dict__['gc_distance'].func(m)
            except Exception as e:  # noqa
                return True, f'gc_distance raised {e!r} for {(olon, olat)}->{(dlon, dlat)}'
            want = G.inv(olon, olat, dlon, dlat)[2]
            if not (abs(got - want) <= 1e-6 * max(1.0, want)):
                return True, f'gc_distance {(olon, olat)}->{(dlon, dlat)} = {got!r}, WGS-84 geodesic = {want!r}'
        return False, 'gc_distance agrees with pyproj on the model airports and two fixed pairs'
    from AEIC.trajectories.ground_track import GroundTrack
    from AEIC.types import Location
    n = job['n']
    layouts = [[(vals.get(f'wp{i}_lon', 10.0 * i), max(-89.0, min(89.0, vals.get(f'wp{i}_lat', 5.0 * i)))) for i in range(n)],
               [(-73.78 + 35.0 * i, 40.64 + 5.0 * i) for i in range(n)], [(140.39 + 50.0 * i - (360 if 140.39 + 50.0 * i > 180 else 0), 35.76 - 4.0 * i) for i in range(n)]]
    allow = bool(vals.get('allow_overstep', 0))
    op = ['location', 'step'][int(vals.get('op', 0))]
    for wp in layouts:
        if len({w for w in wp}) < n:
            continue
        gt = GroundTrack([Location(lo, la) for lo, la in wp], allow_overstep=allow)
        segs = [G.inv(wp[i][0], wp[i][1], wp[i + 1][0], wp[i + 1][1]) for i in range(n - 1)]
        cum = [0.0]
        for s_ in segs:
            cum.append(cum[-1] + s_[2])
        if abs(gt.total_distance - cum[-1]) > 1e-6 * max(1.0, cum[-1]):
            return True, f'total_distance {gt.total_distance} != sum of geodesics {cum[-1]}'
        total = cum[-1]
        # query distances: fractions of the real track covering the interesting spots
        fr = [0.0, 0.3, 1.0] + [c / total for c in cum[1:-1]] + ([1.02, 1.4] if allow else [])
        if op == 'step':
            # documented refusal: negative arguments (also when the sum is still on the track)
            for a, b in ((0.5 * total, -0.2 * total), (-0.1 * total, 0.3 * total), (0.9 * total, -0.9 * total)):
                try:
                    pt = gt.step(a, b)
                    return True, f'step({a:.1f}, {b:.1f}) on {wp} allow_overstep={allow} returned a point ({pt.location.longitude:.4f}, {pt.location.latitude:.4f}) instead of refusing a negative argument'
                except GroundTrack.Exception:
                    pass
                except Exception as e:  # noqa
                    return True, f'step({a},{b}) raised {e!r}'
        for fa in fr:
            for fb in ([0.0] if op == 'location' else [0.0, 0.15, 0.5]):
                a, b = fa * total, fb * total
                d = a + b
                try:
                    pt = gt.location(a) if op == 'location' else gt.step(a, b)
                except GroundTrack.Exception:
                    continue
                except Exception as e:  # noqa
                    return True, f'{op}({a},{b}) raised {e!r}'
                # independent expectation
                if d <= total:
                    k = max(i for i in range(n - 1) if cum[i] <= d + 1e-9)
                    k = min(k, n - 2)
                else:
                    k = n - 2
                elon, elat, _ = G.fwd(wp[k][0], wp[k][1], segs[k][0], d - cum[k])
                err = G.inv(elon, elat, pt.location.longitude, pt.location.latitude)[2]
                if err > 1e-3 or not (0.0 <= pt.azimuth < 360.0):
                    return True, f'{op}({a:.1f},{b:.1f}) on {wp} allow_overstep={allow}: returned point is {err:.3f} m from the geodesic point at {d:.1f} m (azimuth {pt.azimuth})'
    return False, 'real pyproj runs agree with the independent computation'
