"""C16: real Weather.get_ground_speed with the dataset replaced by a symbolic wind source; sin/cos as UFs on the unit circle."""
from __future__ import annotations

import math
import time

import z3

import vf.symex as sx
from vf.symex import choose, cur, sym, ufs

RAD = math.pi / 180.0


class DA:
    """stands for an xarray DataArray after interpolation"""

    def __init__(self, value, log, name):
        self.value, self.log, self.name = value, log, name

    def interp(self, **kw):
        self.log.append((self.name, kw))
        return self

    def isnull(self):
        return self

    @property
    def values(self):
        import numpy as np
        return np.array([self.value is None])

    def __radd__(self, o):
        return o + self.value

    def __add__(self, o):
        return self.value + o


class Pt:
    def __init__(self):
        from AEIC.types import Location
        self.location = Location(sym('lon', -180.0, 180.0), sym('lat', -90.0, 90.0))
        self.azimuth = sym('gt_az', 0.0, 360.0)


def path(ex):
    import AEIC.weather as W
    w = W.Weather.__new__(W.Weather)
    w._require_data = lambda t: None
    log = []
    nan_u = choose('u_is_nan', [False, True])
    nan_v = choose('v_is_nan', [False, True])
    u, v = sym('u', -150.0, 150.0), sym('v', -150.0, 150.0)
    w._ds = {'u': DA(None if nan_u else u, log, 'u'), 'v': DA(None if nan_v else v, log, 'v')}
    tas = sym('tas', 1.0, 400.0)
    alt = sym('alt', 0.0, 20000.0)
    explicit = choose('explicit_azimuth', [True, False])
    az = sym('az', 0.0, 360.0) if explicit else None
    pt = Pt()
    plog = []

    def isa(a):
        p = ufs.generic('isa_pressure', a, concrete=None) if sx.is_sym(a) else 101325.0 * math.exp(-a / 8000.0)
        plog.append((a, p))
        return p
    out = dict(u=u, v=v, tas=tas, alt=alt, az=az, pt=pt, log=log, plog=plog, nan=(nan_u or nan_v), gs=None, exc=None)
    with sx.patched((W, 'np', sx.symnp), (W, 'float', sx.float_shadow), (W, 'pressure_at_altitude_isa_bada4', isa)):
        try:
            out['gs'] = w.get_ground_speed(time=None, gt_point=pt, altitude=alt, true_airspeed=tas, azimuth=az)
        except Exception as e:
            out['exc'] = e
    return out


def obligations(o):
    """yield (id, detail, premise-or-None, conclusion)"""
    if o['nan']:
        yield 'C16.domain.outside_refused', repr(o['exc']), None, isinstance(o['exc'], ValueError) and o['gs'] is None
        return
    yield 'C16.returns_inside_domain', repr(o['exc']), None, o['exc'] is None
    if o['exc'] is not None:
        return
    gs, tas, u, v = o['gs'], o['tas'], o['u'], o['v']
    heading = o['az'] if o['az'] is not None else o['pt'].azimuth
    h = heading * RAD
    s, c = ufs.sin(h), ufs.cos(h)           # same applications the code created (memoised on the canonical argument)
    W = sx.SymFloat(z3.Real('Wspeed'))
    Wt = W.t
    yield 'C16.nonnegative', '', None, gs >= 0.0
    yield 'C16.no_wind_gives_airspeed', '', sx.sym_and(u == 0.0, v == 0.0), gs == tas
    # heading = degrees clockwise from north: unit vector (east, north) = (sin h, cos h)
    yield 'C16.tailwind_adds', '', sx.sym_and(W >= 0.0, u == W * s, v == W * c), gs == tas + W
    yield 'C16.headwind_subtracts', '', sx.sym_and(W >= 0.0, u == -(W * s), v == -(W * c)), sx.sym_or(gs == tas - W, gs == W - tas)
    yield 'C16.bounds', '', sx.sym_and(W >= 0.0, W * W == u * u + v * v), sx.sym_and(gs <= tas + W, gs >= tas - W, gs >= W - tas)
    yield 'C16.vector_sum', '', None, gs * gs == (tas * s + u) * (tas * s + u) + (tas * c + v) * (tas * c + v)
    # diagnostic (never a violation by itself): does the result have the east/north-swapped form?  Used to tell the
    # recorded known finding apart from any other defect of the heading decomposition.
    yield 'C16.signature.east_north_swapped', '', None, gs * gs == (tas * c + u) * (tas * c + u) + (tas * s + v) * (tas * s + v)
    # dataflow into the interpolation
    log = o['log']
    yield 'C16.interp.one_lookup_per_component', str([n for n, _ in log]), None, sorted(n for n, _ in log) == ['u', 'v']
    for name, kw in log:
        ok = set(kw) == {'pressure_level', 'latitude', 'longitude'}
        yield 'C16.interp.keywords', f'{name}: {sorted(kw)}', None, ok
        if ok:
            pl = kw['pressure_level']
            isa_vals = [p for a, p in o['plog']]
            yield 'C16.interp.pressure_level_is_isa_pressure_of_altitude_in_hPa', name, None, sx.sym_or(*[_eq(pl, p / 100.0) for p in isa_vals]) if isa_vals else False
            yield 'C16.interp.isa_evaluated_at_the_altitude', name, None, all(_same(a, o['alt']) for a, p in o['plog'])
            yield 'C16.interp.position', name, None, sx.sym_and(_eq(kw['latitude'], o['pt'].location.latitude), _eq(kw['longitude'], o['pt'].location.longitude))


def _eq(a, b):
    if sx.is_sym(a) or sx.is_sym(b):
        return sx.SymBool(sx.lift(a) == sx.lift(b))
    return abs(a - b) <= 1e-9 * max(1.0, abs(a))


def _same(a, b):
    if sx.is_sym(a) and sx.is_sym(b):
        return a.t.eq(b.t)
    return a == b


def run(deadline_s=300):
    ex = sx.Explorer(purify=False, deadline=time.time() + deadline_s)
    out = dict(obligations={}, violations=[], samples=[], distinct=set(), unknown=[])
    for p in ex.explore(path):
        if p.exc is not None:
            out['violations'].append(dict(obligation='harness', detail=f'{p.exc!r} {(p.tb or "")[-500:]}', values={}, tags={}))
            continue
        o = p.result
        explicit = o['az'] is not None
        # the obligations create/look up UF applications: they must run under the explorer with this path's state
        global_cur = sx.core._CUR
        sx.core._CUR = ex
        try:
            ex.pc, ex.inputs = list(p.pc), dict(p.inputs)
            obls = list(obligations(o))
            pc = list(ex.pc)
        finally:
            sx.core._CUR = global_cur
        for oid, detail, prem, concl in obls:
            d = out['obligations'].setdefault(oid, dict(unsat=0, sat=0, unknown=0))
            if not isinstance(concl, sx.SymBool) and prem is None:
                r, m = ('unsat', None) if concl else ex.check(z3.BoolVal(True), pc=pc)
            else:
                goal = z3.Not(sx.liftb(concl))
                if prem is not None:
                    goal = z3.And(sx.liftb(prem), goal)
                t0 = time.time()
                s = z3.SolverFor('QF_NRA')
                s.set('timeout', 30000)
                s.add(*pc)
                s.add(goal)
                rr = s.check()
                ex.stats['solver_s'] += time.time() - t0
                r, m = str(rr), (s.model() if rr == z3.sat else None)
                ex.stats['obl_' + r] += 1
            if oid.startswith('C16.signature'):
                out.setdefault('signature', []).append(r)
                continue
            d[r] += 1
            if r == 'unsat':
                out['distinct'].add((oid, explicit))
            elif r == 'sat':
                vals = {k: sx.mval(m, v) for k, v in p.inputs.items()}
                vals['Wspeed'] = sx.mval(m, z3.Real('Wspeed'))
                sv = [(k, sx.mval(m, v2)) for nm in ('sin', 'cos') for k, _, v2 in ex.ufapps.get(nm, [])]
                out['violations'].append(dict(obligation=oid, detail=f'{detail} model sin/cos={sv}', values=vals, tags=dict(explicit_azimuth=explicit)))
            else:
                out['unknown'].append(oid)
        if len(out['samples']) < 3:
            out['samples'].append(dict(nan=o['nan'], explicit_azimuth=explicit, gs=str(o['gs'])[:120], exc=repr(o['exc'])))
    out['stats'] = ex.stats
    out['truncated'] = ex.truncated
    out['distinct'] = len(out['distinct'])
    return out


# ---------------------------------------------------------------------------
# replay on the real xarray path with a synthetic uniform-wind ERA5-shaped file


def real_ground_speed(cases, scratch):
    """cases: list of dict(u, v, tas, heading_deg, alt, lat, lon); returns list of ground speeds (or exception reprs)"""
    import os
    from pathlib import Path
    import numpy as np
    import pandas as pd
    import xarray as xr
    import AEIC
    from AEIC.config import Config
    from AEIC.trajectories.ground_track import GroundTrack
    from AEIC.types import Location
    import AEIC.weather as W
    repo = Path(AEIC.__file__).resolve().parents[2]
    os.environ['AEIC_PATH'] = str(repo / 'tests' / 'data')
    Config.reset()
    Config.load(data_path_overrides=[repo / 'tests' / 'data'])
    out = []
    try:
        for i, c in enumerate(cases):
            d = Path(scratch) / f'wx{i}'
            d.mkdir(parents=True, exist_ok=True)
            levels = np.array([1000.0, 850.0, 700.0, 500.0, 300.0, 200.0, 100.0])
            lats = np.arange(60.0, 19.0, -5.0)
            lons = np.arange(-130.0, -59.0, 5.0)
            shape = (len(levels), len(lats), len(lons))
            ds = xr.Dataset({k: (('pressure_level', 'latitude', 'longitude'), np.full(shape, float(val))) for k, val in (('t', 250.0), ('u', c['u']), ('v', c['v']))},
                            coords=dict(pressure_level=levels, latitude=lats, longitude=lons))
            ds.to_netcdf(d / '20240901.nc')
            ds.close()
            w = W.Weather(d)
            pt = GroundTrack.Point(Location(c.get('lon', -95.0), c.get('lat', 40.0)), c['heading_deg'])
            try:
                out.append(float(w.get_ground_speed(pd.Timestamp('2024-09-01T12:00:00'), pt, c.get('alt', 9000.0), c['tas'], azimuth=c.get('explicit'))))
            except Exception as e:  # noqa
                out.append(repr(e))
            if w._main_ds is not None:
                w._main_ds.close()
    finally:
        Config.reset()
    return out


def expected(c):
    h = math.radians(c['heading_deg'] if c.get('explicit') is None else c['explicit'])
    return math.hypot(c['tas'] * math.sin(h) + c['u'], c['tas'] * math.cos(h) + c['v'])


def replay(v, scratch):
    vals = v['values']
    tas = float(vals.get('tas', 200.0))
    Wsp = abs(float(vals.get('Wspeed', 20.0))) or 20.0
    cases = []
    oid = v['obligation']
    for hd in (0.0, 90.0, 135.0, 200.0, 311.0):
        h = math.radians(hd)
        if oid == 'C16.no_wind_gives_airspeed':
            cases.append(dict(u=0.0, v=0.0, tas=tas, heading_deg=hd))
        elif oid == 'C16.headwind_subtracts':
            cases.append(dict(u=-Wsp * math.sin(h), v=-Wsp * math.cos(h), tas=tas, heading_deg=hd))
        else:
            cases.append(dict(u=Wsp * math.sin(h), v=Wsp * math.cos(h), tas=tas, heading_deg=hd))
    got = real_ground_speed(cases, scratch)
    bad = [(c['heading_deg'], g, expected(c)) for c, g in zip(cases, got) if isinstance(g, str) or abs(g - expected(c)) > 1e-6 * max(1.0, expected(c))]
    return bool(bad), f'real Weather.get_ground_speed on a uniform-wind file: (heading, got, vector-sum value) = {bad[:3]}'


# ---------------------------------------------------------------------------
# part 2: which data a query at time t is answered from (file/hour cache), as an inductive step


class SymTime:
    """stands for a pandas Timestamp: (day ordinal, hour, sub-hour remainder) are solver integers"""

    def __init__(self, day, hour, rest):
        self.day, self.hour, self.rest = day, hour, rest

    def __eq__(self, o):
        if not isinstance(o, SymTime):
            return False
        return sx.sym_and(self.day == o.day, self.hour == o.hour, self.rest == o.rest)

    def __ne__(self, o):
        return sx.sym_not(self.__eq__(o))

    __hash__ = None

    def normalize(self):
        return SymTime(self.day, 0, 0)

    def floor(self, *a, **k):
        return self.normalize()

    def date(self):
        return SymTime(self.day, 0, 0)

    def strftime(self, fmt):
        return ('fname', self.day)


class FakeDS:
    def __init__(self, day, has_time):
        self.day, self.has_time = day, has_time
        self.dims = {'pressure_level': 1, 'latitude': 1, 'longitude': 1, **({'valid_time': 24} if has_time else {})}
        self.closed = False

    def isel(self, valid_time):
        return FakeSlice(self, valid_time)

    def close(self):
        self.closed = True


class FakeSlice:
    def __init__(self, ds, hour):
        self.ds, self.hour = ds, hour


def symtime(name):
    return SymTime(sx.symint(name + '_day', 0, 400), sx.symint(name + '_hour', 0, 23), sx.symint(name + '_rest', 0, 3599))


def cache_path(ex):
    import AEIC.weather as W
    has_time = choose('files_have_time_axis', [True, False])
    w = W.Weather.__new__(W.Weather)
    w.data_dir = None
    w._nc_path = lambda t: ('path', t.day)

    class FakeXr:
        @staticmethod
        def open_dataset(path):
            return FakeDS(path[1], has_time)
    pre = choose('cache_state', ['empty', 'file_open_no_slice', 'file_open_and_sliced'])
    w._main_ds = w._ds_date = w._ds = w._ds_time_idx = None
    if pre != 'empty':
        t0 = symtime('t0')
        stamp = choose('stored_stamp', ['full', 'normalized'])
        w._main_ds = FakeDS(t0.day, has_time)
        w._ds_date = t0 if stamp == 'full' else t0.normalize()
        if pre == 'file_open_and_sliced':
            if has_time:
                w._ds, w._ds_time_idx = FakeSlice(w._main_ds, t0.hour), t0.hour
            else:
                w._ds, w._ds_time_idx = w._main_ds, None
    t = symtime('t')
    exc = None
    with sx.patched((W, 'xr', FakeXr), (W, 'gc', type('G', (), {'collect': staticmethod(lambda: None)}))):
        try:
            w._require_data(t)
        except Exception as e:
            exc = e
    return dict(w=w, t=t, has_time=has_time, pre=pre, exc=exc)


def cache_obligations(o):
    w, t = o['w'], o['t']
    yield 'C16.data.no_error', repr(o['exc']), o['exc'] is None
    if o['exc'] is not None:
        return
    ds = w._ds
    if o['has_time']:
        yield 'C16.data.slice_selected', type(ds).__name__, isinstance(ds, FakeSlice)
        if isinstance(ds, FakeSlice):
            yield 'C16.data.from_the_file_of_the_query_date', '', ds.ds.day == t.day
            yield 'C16.data.from_the_hour_of_the_query', '', ds.hour == t.hour
            yield 'C16.data.file_in_use_is_open', '', not ds.ds.closed
    else:
        yield 'C16.data.whole_file_selected', type(ds).__name__, isinstance(ds, FakeDS)
        if isinstance(ds, FakeDS):
            yield 'C16.data.from_the_file_of_the_query_date', '', ds.day == t.day
            yield 'C16.data.file_in_use_is_open', '', not ds.closed
    # invariant re-established (so the step applies to histories of any length)
    yield 'C16.data.invariant.main_file_matches_recorded_date', '', w._main_ds is not None and isinstance(w._ds_date, SymTime) and (w._main_ds.day == w._ds_date.day)
    if isinstance(ds, FakeSlice):
        yield 'C16.data.invariant.slice_belongs_to_main_file', '', ds.ds is w._main_ds and sx.sym_and(w._ds_time_idx == ds.hour)


def run_cache(deadline_s=120):
    ex = sx.Explorer(purify=False, deadline=time.time() + deadline_s)
    out = dict(obligations={}, violations=[], samples=[], distinct=set(), unknown=[])
    for p in ex.explore(cache_path):
        if p.exc is not None:
            out['violations'].append(dict(obligation='harness', detail=f'{p.exc!r} {(p.tb or "")[-500:]}', values={}, tags={}))
            continue
        o = p.result
        for oid, detail, val in cache_obligations(o):
            d = out['obligations'].setdefault(oid, dict(unsat=0, sat=0, unknown=0))
            if isinstance(val, sx.SymBool):
                r, m = ex.prove(val, pc=p.pc)
            else:
                r, m = ('unsat', None) if val else ex.check(z3.BoolVal(True), pc=p.pc)
            d[r] += 1
            if r == 'unsat':
                out['distinct'].add((oid, o['pre'], o['has_time'], tuple(p.trace)))
            elif r == 'sat':
                vals = {k: sx.mval(m, v) for k, v in p.inputs.items()}
                out['violations'].append(dict(obligation=oid, detail=detail, values=vals, tags=dict(cache_state=o['pre'], time_axis=o['has_time'])))
            else:
                out['unknown'].append(oid)
        if len(out['samples']) < 3:
            out['samples'].append(dict(pre=o['pre'], has_time=o['has_time'], path_conditions=[str(c)[:60] for c in p.pc[-4:]]))
    out['stats'] = ex.stats
    out['truncated'] = ex.truncated
    out['distinct'] = len(out['distinct'])
    return out


def replay_cache(v, scratch):
    """real Weather on real files: a query (day0,hour0) followed by (day,hour) from the model; the second answer must
    equal that of a fresh Weather object."""
    import os
    from pathlib import Path
    import numpy as np
    import pandas as pd
    import xarray as xr
    import AEIC
    from AEIC.config import Config
    from AEIC.trajectories.ground_track import GroundTrack
    from AEIC.types import Location
    import AEIC.weather as W
    vals = v['values']
    has_time = bool(v['tags'].get('time_axis', True))
    repo = Path(AEIC.__file__).resolve().parents[2]
    os.environ['AEIC_PATH'] = str(repo / 'tests' / 'data')
    Config.reset()
    Config.load(data_path_overrides=[repo / 'tests' / 'data'])
    try:
        d = Path(scratch) / 'wxcache'
        d.mkdir(parents=True, exist_ok=True)
        d0, h0 = int(vals.get('t0_day', 0)), int(vals.get('t0_hour', 0))
        d1, h1 = int(vals.get('t_day', 0)), int(vals.get('t_hour', 0))
        base = pd.Timestamp('2024-03-01')
        days = sorted({d0, d1})
        levels = np.array([1000.0, 500.0, 200.0])
        lats, lons = np.array([60.0, 20.0]), np.array([-130.0, -60.0])
        for k, dd in enumerate(days):
            day = base + pd.Timedelta(days=dd % 300)
            if has_time:
                shape = (24, 3, 2, 2)
                hours = np.arange(24)
                u = (10.0 * (k + 1) + hours)[:, None, None, None] * np.ones(shape)
                ds = xr.Dataset({'t': (('valid_time', 'pressure_level', 'latitude', 'longitude'), np.full(shape, 250.0)),
                                 'u': (('valid_time', 'pressure_level', 'latitude', 'longitude'), u),
                                 'v': (('valid_time', 'pressure_level', 'latitude', 'longitude'), np.zeros(shape))},
                                coords=dict(valid_time=[day + pd.Timedelta(hours=int(h)) for h in hours], pressure_level=levels, latitude=lats, longitude=lons))
            else:
                shape = (3, 2, 2)
                ds = xr.Dataset({'t': (('pressure_level', 'latitude', 'longitude'), np.full(shape, 250.0)),
                                 'u': (('pressure_level', 'latitude', 'longitude'), np.full(shape, 10.0 * (k + 1))),
                                 'v': (('pressure_level', 'latitude', 'longitude'), np.zeros(shape))},
                                coords=dict(pressure_level=levels, latitude=lats, longitude=lons))
            ds.to_netcdf(d / day.strftime('%Y%m%d.nc'))
            ds.close()
        pt = GroundTrack.Point(Location(-95.0, 40.0), 90.0)
        def stamp(dd, hh):
            return base + pd.Timedelta(days=dd % 300) + pd.Timedelta(hours=hh, minutes=7)
        shared = W.Weather(d)
        if v['tags'].get('cache_state') != 'empty':
            shared.get_ground_speed(stamp(d0, h0), pt, 9000.0, 200.0)
        got = shared.get_ground_speed(stamp(d1, h1), pt, 9000.0, 200.0)
        want = W.Weather(d).get_ground_speed(stamp(d1, h1), pt, 9000.0, 200.0)
        return abs(got - want) > 1e-9, f'query ({d0},{h0}h) then ({d1},{h1}h): shared Weather object {got}, fresh object {want}'
    finally:
        Config.reset()
