"""C17: one inductive step of the real Builder.fly / _iterate_mass / __getattr__ / __setattr__ from a clean builder,
with a stub context class and stub phases whose failure points and mass residuals are symbolic."""
from __future__ import annotations

import time

import z3

import vf.symex as sx
from vf.symex import choose, cur, sym, symint

REJECTIONS = [('ValueError', 'unknown airport XXX'), ('ValueError', 'airport above cruise altitude'),
              ('ValueError', 'state outside performance envelope'), ('ValueError', 'no weather data for this position'),
              ('KeyError', 'unknown airport')]


class Injected:
    """registry of exception objects the stubs raised on this path"""

    def __init__(self):
        self.raised = []

    def maybe(self, site, kinds=REJECTIONS):
        k = choose(f'fail_{site}', [None] + list(range(len(kinds))))
        if k is None:
            return
        name, msg = kinds[k]
        e = {'ValueError': ValueError, 'KeyError': KeyError, 'RuntimeError': RuntimeError}[name](msg)
        self.raised.append((site, e))
        raise e


class StubTraj:
    def __init__(self, k):
        self.k = k
        self.flight_id = None


class StubMission:
    label = 'm'

    def __init__(self, flight_id):
        self.flight_id = flight_id


def make_classes():
    from AEIC.trajectories.builders.base import Builder, Context

    class StubContext(Context):
        def __init__(self, builder, ac_performance, mission, starting_mass, **kw):
            inj = cur().notes['inj']
            inj.maybe('context')
            super().__init__(builder=builder, ac_performance=ac_performance, mission=mission, ground_track=None,
                             initial_altitude=sym(f"alt0_{cur().notes['flight']}"), starting_mass=starting_mass)
            self.total_fuel_mass = sym(f"fuel0_{cur().notes['flight']}", 1.0, 1e6)
            self.current_mass = None
            self.iteration = 0

    class StubBuilder(Builder):
        CONTEXT_CLASS = StubContext

        def calc_starting_mass(self):
            cur().notes['inj'].maybe('starting_mass')
            return sym(f"m0_{cur().notes['flight']}", 1.0, 1e6)

        def _fly_iteration(self):
            # stands for the phase loop of the real _fly_iteration: may raise a documented rejection at any
            # iteration, otherwise yields a trajectory and a symbolic residual
            self.iteration = self.iteration + 1
            k = self.iteration
            f = cur().notes['flight']
            cur().notes['inj'].maybe(f'iteration{k}')
            r = sym(f'res_{f}_{k}', -10.0, 10.0)
            cur().notes.setdefault('iters', []).append((f, k, r, self.starting_mass, self.total_fuel_mass))
            return StubTraj(k), r

    return StubBuilder, StubContext


def path(bounds):
    """one flight on a clean builder (inductive step) -- everything nondeterministic"""
    from AEIC.trajectories.builders.base import Options

    def fn(ex):
        StubBuilder, StubContext = make_classes()
        ex.notes['inj'] = Injected()
        ex.notes['flight'] = 1
        iterate = choose('iterate_mass', [True, False])
        optimize = choose('optimize_traj', [False, True])
        mx = symint('max_mass_iters', 1, bounds['max_iters']) if iterate else 5
        mx = int(mx)
        tol = sym('reltol', 0.0, 1.0, lo_strict=True)
        opts = Options(optimize_traj=optimize, iterate_mass=iterate, use_weather=False, max_mass_iters=mx, mass_iter_reltol=tol)
        b = StubBuilder(options=opts)
        before = dict(b.__dict__)
        user_mass = sym('user_mass', 1.0, 1e6) if choose('user_starting_mass', [False, True]) else None
        fid = choose('flight_id', [None, 7])
        out = dict(builder=b, before=before, opts=opts, tol=tol, mx=mx, iterate=iterate, optimize=optimize, user_mass=user_mass,
                   result=None, exc=None, fid=fid)
        try:
            out['result'] = b.fly(object(), StubMission(fid), starting_mass=user_mass)
        except Exception as e:  # outcome, judged below
            out['exc'] = e
        out['after'] = dict(b.__dict__)
        out['iters'] = list(ex.notes.get('iters', []))
        out['injected'] = list(ex.notes['inj'].raised)
        return out
    return fn


def obligations(o):
    """yield (id, detail, value)"""
    inj = o['injected']
    # (i) the builder is left clean
    yield 'C17.state.no_context_left', str(sorted(o['after'])), 'ctx' not in o['after']
    yield 'C17.state.builder_attributes_unchanged', str(sorted(o['after'])), set(o['after']) == set(o['before']) and all(o['after'][k] is o['before'][k] for k in o['before'])
    # (iii) the original reason surfaces
    if inj:
        yield 'C17.error.original_reason_surfaces', f'injected at {inj[-1][0]}: {inj[-1][1]!r}; got {o["exc"]!r}', o['exc'] is inj[-1][1]
    elif o['exc'] is not None:
        e = o['exc']
        allowed = (o['optimize'] and isinstance(e, NotImplementedError)) or \
                  (o['iterate'] and isinstance(e, RuntimeError) and 'converge' in str(e))
        yield 'C17.error.only_documented_errors', repr(e), bool(allowed)
    # (iv) mass iteration: returned => converged (or iteration disabled); metadata of the final iteration
    if o['result'] is not None:
        t = o['result']
        its = o['iters']
        yield 'C17.massiter.returns_a_flown_trajectory', '', isinstance(t, StubTraj) and 1 <= t.k <= len(its)
        f, k, r, m_k, f_k = its[t.k - 1]
        yield 'C17.massiter.returned_is_last_flown', f'k={t.k} of {len(its)}', t.k == len(its)
        if o['iterate']:
            yield 'C17.massiter.returned_residual_within_tolerance', f'k={k}', sx.sym_and(r < o['tol'], r > -o['tol'])
            yield 'C17.massiter.iterations_bounded', f'{len(its)} <= {o["mx"]}', len(its) <= o['mx']
        else:
            yield 'C17.massiter.single_iteration_when_disabled', '', len(its) == 1
        # expected masses: independent recurrence
        m = o['user_mass'] if o['user_mass'] is not None else its[0][3]
        fuel = its[0][4]
        for j in range(1, t.k):
            rj = its[j - 1][2]
            m, fuel = m - rj * fuel, fuel - rj * fuel
        yield 'C17.massiter.metadata_of_final_iteration', '', sx.sym_and(_eq(t.starting_mass, m), _eq(t.total_fuel_mass, fuel))
        yield 'C17.result.flight_id_copied', '', (t.flight_id == o['fid']) if o['fid'] is not None else (t.flight_id is None)
    elif o['iterate'] and not inj and isinstance(o['exc'], RuntimeError) and 'converge' in str(o['exc']):
        # reported non-convergence: no earlier iteration within the loop's reach was within tolerance
        its = o['iters']
        yield 'C17.massiter.nonconvergence_only_after_exhausting_iterations', f'{len(its)} of {o["mx"]}', len(its) == o['mx']
        for (f, k, r, _, _) in its[:-1]:
            yield 'C17.massiter.nonconvergence_means_checked_residuals_outside_tolerance', f'k={k}', sx.sym_or(r >= o['tol'], r <= -o['tol'])


def _eq(a, b):
    if sx.is_sym(a) or sx.is_sym(b):
        return sx.SymBool(sx.lift(a) == sx.lift(b))
    return a == b


def run(bounds, deadline_s=300):
    ex = sx.Explorer(purify=False, deadline=time.time() + deadline_s)
    out = dict(obligations={}, violations=[], outcomes={}, samples=[], distinct=set(), unknown=[])
    for p in ex.explore(path(bounds)):
        if p.exc is not None:
            out['violations'].append(dict(obligation='C17.harness', detail=f'harness raised {p.exc!r} {p.tb[-300:] if p.tb else ""}', values={}, tags={}))
            continue
        o = p.result
        kind = 'returned' if o['result'] is not None else type(o['exc']).__name__
        out['outcomes'][kind] = out['outcomes'].get(kind, 0) + 1
        shape = (kind, tuple(s for s, _ in o['injected']), o['iterate'], o['mx'], len(o['iters']))
        for oid, detail, val in obligations(o):
            d = out['obligations'].setdefault(oid, dict(unsat=0, sat=0, unknown=0))
            if isinstance(val, sx.SymBool):
                r, m = ex.prove_sliced(val, pc=p.pc)
            else:
                r, m = ('unsat', None) if val else ex.check(z3.BoolVal(True), pc=p.pc)
            d[r] += 1
            if r == 'unsat':
                out['distinct'].add((oid, shape))
            elif r == 'sat':
                vals = {k: sx.mval(m, v) for k, v in p.inputs.items()}
                out['violations'].append(dict(obligation=oid, detail=detail, values=vals,
                                              tags=dict(failure_site=(o['injected'][-1][0] if o['injected'] else 'none'), outcome=kind,
                                                        iterate_mass=o['iterate'])))
            else:
                out['unknown'].append(oid)
        if len(out['samples']) < 4:
            out['samples'].append(dict(outcome=kind, injected=[s for s, _ in o['injected']], iterate_mass=o['iterate'], max_iters=o['mx'], iterations=len(o['iters'])))
    out['stats'] = ex.stats
    out['truncated'] = ex.truncated
    return out


def replay(v, bounds):
    run_ = sx.ConcreteRun(v['values'])
    res, exc = run_.run(path(bounds))
    if exc is not None:
        return False, f'harness raised {exc!r}'
    bad = [(oid, det) for oid, det, val in obligations(res) if oid == v['obligation'] and not bool(val)]
    return bool(bad), str(bad[:2])


# ---------------------------------------------------------------------------
# concrete histories on the real LegacyBuilder (validation of the inductive argument on the implementation)


def real_histories():
    """flies sequences on one real builder and compares bitwise with fresh builders; returns (n_checked, problems)"""
    import copy
    import numpy as np
    import tomllib
    from pathlib import Path
    import AEIC
    import AEIC.trajectories.builders as tb
    from AEIC.config import Config, config
    from AEIC.missions import Mission
    from AEIC.performance.models import PerformanceModel
    repo = Path(AEIC.__file__).resolve().parents[2]
    data = repo / 'tests' / 'data'
    import os
    os.environ['AEIC_PATH'] = str(data)
    Config.reset()
    Config.load(data_path_overrides=[data])
    problems, n = [], 0
    try:
        with open(config.file_location('missions/sample_missions_10.toml'), 'rb') as f:
            missions = Mission.from_toml(tomllib.load(f))
        pm = PerformanceModel.load(config.file_location('performance/sample_performance_model.toml'))
        bad = copy.copy(missions[0])
        object.__setattr__(bad, 'origin', 'XXX') if hasattr(bad, '__dataclass_fields__') else setattr(bad, 'origin', 'XXX')
        for opts in (dict(iterate_mass=False), dict(iterate_mass=True, max_mass_iters=30, mass_iter_reltol=1e-3)):
            shared = tb.LegacyBuilder(options=tb.Options(**opts))
            seq = [('ok', missions[0]), ('bad', bad), ('ok', missions[1]), ('ok', missions[0]), ('bad', bad), ('ok', missions[2])]
            for kind, mis in seq:
                def fly(b):
                    try:
                        return b.fly(pm, mis), None
                    except Exception as e:  # noqa
                        return None, e
                t1, e1 = fly(shared)
                t2, e2 = fly(tb.LegacyBuilder(options=tb.Options(**opts)))
                n += 1
                if (e1 is None) != (e2 is None) or (e1 is not None and (type(e1) is not type(e2) or str(e1) != str(e2))):
                    problems.append(f'{opts} {kind} {mis.origin}->{mis.destination}: shared builder {e1!r} vs fresh {e2!r}')
                    continue
                if e1 is not None:
                    if isinstance(e1, AttributeError) and 'ctx' in str(e1):
                        problems.append(f'{opts} rejected mission surfaces internal error {e1!r}')
                    continue
                for name in t1._data:
                    a, b_ = t1._data[name], t2._data[name]
                    same = (np.array_equal(a, b_, equal_nan=True) if isinstance(a, np.ndarray) and a.dtype.kind == 'f' else
                            (np.array_equal(a, b_) if isinstance(a, np.ndarray) else a == b_))
                    if not same:
                        problems.append(f'{opts} {mis.origin}->{mis.destination}: field {name} differs between shared and fresh builder')
                        break
                if 'ctx' in shared.__dict__:
                    problems.append('builder left with a context after fly')
    finally:
        Config.reset()
    return n, problems
