"""C18: the configuration singleton as a three-state machine (inductive step) + overlay precedence.

(A) one step from an arbitrary singleton state: the real bodies of Config's after-validators, Config.get/reset and
    ConfigProxy run on a stand-in instance inside a model of the pydantic pipeline (field validation may fail, then
    the mode='after' validators run in definition order, any may raise; every file lookup may fail).
(B) the real Config.load body with tomllib/open/model_validate replaced: defaults, file and keyword data are
    2-level trees of every shape (enumerated) with symbolic leaves; the merged data must equal an independent
    flatten-and-mask formulation of "defaults overlaid by file overlaid by keyword arguments".
(C) validation on the real pydantic class: concrete load/reset/mutation sequences.
"""
from __future__ import annotations

import itertools
import time

import z3

import vf.symex as sx
from vf.symex import choose, cur, sym, symbool

SENT = None


class Sentinel:
    """stands for an already active configuration instance"""

    def __init__(self):
        object.__setattr__(self, 'log', [])
        object.__setattr__(self, 'some_field', 'value-of-active-config')

    def __setattr__(self, k, v):
        self.log.append((k, v))
        raise TypeError('Instance is frozen')        # what a frozen pydantic model does


def after_validators():
    from AEIC.config.core import Config
    V = Config.__pydantic_decorators__.model_validators
    return [(n, d.func) for n, d in V.items() if d.info.mode == 'after']


class FakeWeather:
    def __init__(self):
        self.weather_data_dir = 'weather'


class FakeCfg:
    """stands for the instance pydantic hands to the after-validators (fields already validated)"""

    def __init__(self):
        self.path = []
        self.performance_model = 'pm.toml'
        self.engine_file = 'e.xlsx'
        self.weather = FakeWeather()
        self.lookups = 0

    def _normalize_path(self):
        if bool(symbool('normalize_path_raises')):
            raise OSError('cannot resolve search path')

    def __getattr__(self, name):
        # any other method the validators call on the instance is the real Config method, bound to the stand-in
        from AEIC.config.core import Config
        import types
        f = Config.__dict__.get(name)
        if isinstance(f, types.FunctionType):
            return types.MethodType(f, self)
        raise AttributeError(name)

    def file_location(self, f):
        self.lookups += 1
        if bool(symbool(f'file_missing_{self.lookups}')):
            raise FileNotFoundError(str(f))
        return '/resolved/' + str(f)


def model_validate_model():
    """model of pydantic's validation pipeline for Config"""
    if bool(symbool('field_invalid')):
        raise ValueError('validation error (invalid field value)')
    inst = FakeCfg()
    for name, fn in after_validators():
        inst = fn(inst)
    return inst


OPS = ['load', 'reset', 'get', 'proxy_get', 'proxy_set']


def step(ex):
    import AEIC.config.core as core
    sent = Sentinel()
    configured = choose('configured_before', [False, True])
    core._config = sent if configured else None
    op = choose('op', OPS)
    out = dict(before=configured, op=op, result=None, exc=None, sent=sent)
    try:
        if op == 'load':
            out['result'] = model_validate_model()
        elif op == 'reset':
            core.Config.reset()
        elif op == 'get':
            out['result'] = core.Config.get()
        elif op == 'proxy_get':
            out['result'] = core.config.some_field
        else:
            core.config.some_field = 'mutated'
    except Exception as e:
        out['exc'] = e
    out['after'] = core._config
    core._config = None
    return out


def machine_obligations(o):
    sent, after, exc, res = o['sent'], o['after'], o['exc'], o['result']
    st = 'none' if after is None else ('same' if after is sent else 'new')
    if o['op'] == 'load':
        if o['before']:
            yield 'C18.load.refused_while_configured', f'exc={exc!r} state={st}', exc is not None and st == 'same'
        elif exc is not None:
            yield 'C18.load.failed_load_leaves_unconfigured', f'exc={exc!r} state={st}', st == 'none'
        else:
            yield 'C18.load.success_installs_that_instance', f'state={st}', st == 'new' and after is res
    elif o['op'] == 'reset':
        yield 'C18.reset.unconfigures', st, st == 'none' and exc is None
    elif o['op'] == 'get':
        if o['before']:
            yield 'C18.get.returns_active', st, exc is None and res is sent and st == 'same'
        else:
            yield 'C18.get.refused_when_unconfigured', f'{exc!r}', isinstance(exc, ValueError) and st == 'none'
    elif o['op'] == 'proxy_get':
        if o['before']:
            yield 'C18.proxy.reads_active', st, exc is None and res == 'value-of-active-config' and st == 'same'
        else:
            yield 'C18.proxy.read_refused_when_unconfigured', f'{exc!r}', isinstance(exc, ValueError) and st == 'none'
    else:
        if o['before']:
            yield 'C18.proxy.write_reaches_frozen_model', f'{exc!r} log={sent.log}', sent.log == [('some_field', 'mutated')] and isinstance(exc, TypeError) and st == 'same'
        else:
            yield 'C18.proxy.write_refused_when_unconfigured', f'{exc!r}', isinstance(exc, ValueError) and st == 'none'


# ---------------------------------------------------------------------------
# (B) overlay precedence through the real Config.load body


KEYS1 = ['a', 'b']
KEYS2 = ['x', 'y']


def tree(name, kinds):
    """a 2-level tree: each top key absent | present; a present section key holds any subset of second-level keys.
    `kinds` fixes per top key whether it is a plain value or a section (the same in every layer: a key that is a
    section in one layer and a plain value in another cannot validate and is outside the claim)."""
    t = {}
    for k1 in KEYS1:
        if not choose(f'{name}_{k1}_present', [False, True]):
            continue
        if kinds[k1] == 'leaf':
            t[k1] = sym(f'{name}_{k1}')
        else:
            d = {}
            for k2 in KEYS2:
                if choose(f'{name}_{k1}_{k2}_present', [False, True]):
                    d[k2] = sym(f'{name}_{k1}_{k2}')
            t[k1] = d
    return t


def flatten(t):
    out = {}
    for k1, v in t.items():
        if isinstance(v, dict):
            out[(k1,)] = 'DICT'
            for k2, w in v.items():
                out[(k1, k2)] = w
        else:
            out[(k1,)] = v
    return out


def spec_overlay(layers):
    """layers lowest priority first.  Independent formulation on flattened paths: the effective value of a path is
    the value in the highest-priority layer that defines that path; a section exists if any layer has it."""
    flats = [flatten(l) for l in layers]
    res = {}
    for path in {p for f in flats for p in f}:
        for f in reversed(flats):
            if path in f:
                res[path] = f[path]
                break
    return res


def overlay_path(with_file, fixed_kinds=None):
    def fn(ex):
        import AEIC.config.core as core
        kinds = fixed_kinds or {k1: choose(f'kind_{k1}', ['leaf', 'dict']) for k1 in KEYS1}
        defaults, filed, kw = tree('dflt', kinds), (tree('file', kinds) if with_file else None), tree('kw', kinds)
        import copy
        d0, f0, k0 = copy.deepcopy(defaults), copy.deepcopy(filed), copy.deepcopy(kw)
        loads = [defaults] + ([filed] if with_file else [])
        captured = {}

        class FakeToml:
            @staticmethod
            def load(fp):
                return loads.pop(0)

        class FakeFile:
            def __enter__(self):
                return self

            def __exit__(self, *a):
                return False

        def fake_open(*a, **k):
            return FakeFile()

        class FakeCls:
            @staticmethod
            def model_validate(data):
                captured['data'] = data
                return 'instance'

        with sx.patched((core, 'tomllib', FakeToml), (core, 'open', fake_open)):
            res = core.Config.load.__func__(FakeCls, 'cfg.toml' if with_file else None, **kw)
        return dict(merged=captured.get('data'), layers=[d0] + ([f0] if with_file else []) + [k0], res=res)
    return fn


def overlay_obligations(o):
    got = flatten(o['merged'])
    want = spec_overlay(o['layers'])
    yield 'C18.overlay.same_keys', f'got {sorted(got)} want {sorted(want)}', set(got) == set(want)
    for k in sorted(set(got) & set(want)):
        g, w = got[k], want[k]
        if isinstance(g, str) or isinstance(w, str):
            yield 'C18.overlay.same_structure', str(k), g == w
        else:
            yield 'C18.overlay.value_from_highest_priority_layer', str(k), sx.SymBool(sx.lift(g) == sx.lift(w)) if (sx.is_sym(g) or sx.is_sym(w)) else g == w
    yield 'C18.overlay.load_returns_validated_instance', '', o['res'] == 'instance'


# ---------------------------------------------------------------------------


def run_part(fn, obligations, tag, deadline_s=300):
    ex = sx.Explorer(purify=False, deadline=time.time() + deadline_s)
    out = dict(obligations={}, violations=[], samples=[], distinct=set(), unknown=[], tag=tag)
    for p in ex.explore(fn):
        if p.exc is not None:
            out['violations'].append(dict(obligation='harness', detail=f'{p.exc!r} {(p.tb or "")[-400:]}', values={}, tags={}))
            continue
        o = p.result
        for oid, detail, val in obligations(o):
            d = out['obligations'].setdefault(oid, dict(unsat=0, sat=0, unknown=0))
            if isinstance(val, sx.SymBool):
                r, m = ex.prove_sliced(val, pc=p.pc)
            else:
                r, m = ('unsat', None) if val else ex.check(z3.BoolVal(True), pc=p.pc)
            d[r] += 1
            if r == 'unsat':
                out['distinct'].add((oid, tuple(p.trace)))
            elif r == 'sat':
                vals = {k: sx.mval(m, v) for k, v in p.inputs.items()}
                tags = {k: v for k, v in vals.items() if isinstance(v, (bool, int)) and not isinstance(v, float)}
                out['violations'].append(dict(obligation=oid, detail=detail, values=vals, tags=tags))
            else:
                out['unknown'].append(oid)
        if len(out['samples']) < 3:
            out['samples'].append({k: str(v)[:80] for k, v in o.items() if k in ('before', 'op', 'exc', 'layers', 'merged')})
    out['stats'] = ex.stats
    out['truncated'] = ex.truncated
    return out


def replay(part, v):
    fn, obl = PARTS[part]
    run = sx.ConcreteRun(v['values'])
    res, exc = run.run(fn)
    if exc is not None:
        return False, f'harness raised {exc!r}'
    bad = [(oid, det) for oid, det, val in obl(res) if oid == v['obligation'] and not bool(val)]
    return bool(bad), str(bad[:2])


PARTS = {'machine': (step, machine_obligations)}
for _ka, _kb in itertools.product(['leaf', 'dict'], repeat=2):
    PARTS[f'overlay_file[{_ka},{_kb}]'] = (overlay_path(True, {'a': _ka, 'b': _kb}), overlay_obligations)
    PARTS[f'overlay_nofile[{_ka},{_kb}]'] = (overlay_path(False, {'a': _ka, 'b': _kb}), overlay_obligations)


# ---------------------------------------------------------------------------
# (C) the real class


def real_sequences():
    """concrete histories on the real pydantic Config; returns (n_steps, problems, pipeline facts)"""
    import os
    import tempfile
    from pathlib import Path
    import AEIC
    from AEIC.config import Config, config
    import AEIC.config.core as core
    import pydantic
    repo = Path(AEIC.__file__).resolve().parents[2]
    data = repo / 'tests' / 'data'
    os.environ['AEIC_PATH'] = str(data)
    problems = []
    n = 0
    facts = {}
    # pipeline order on the real class
    order = []
    names = [nm for nm, _ in after_validators()]
    facts['after_validators_in_definition_order'] = names
    # frozen flags read reflectively for every model class reachable from Config's fields
    seen, stack = set(), [Config]
    while stack:
        c = stack.pop()
        if c in seen:
            continue
        seen.add(c)
        if not c.model_config.get('frozen'):
            problems.append(f'{c.__name__} is not declared frozen')
        for f in c.model_fields.values():
            ann = f.annotation
            if isinstance(ann, type) and issubclass(ann, pydantic.BaseModel):
                stack.append(ann)
    facts['frozen_models'] = sorted(c.__name__ for c in seen)

    def state():
        return core._config

    def expect_raises(fn, what, types=Exception):
        nonlocal n
        n += 1
        try:
            fn()
        except types as e:  # noqa
            return e
        except Exception as e:  # noqa
            problems.append(f'{what}: raised {e!r}, expected {types}')
            return e
        problems.append(f'{what}: did not raise')
        return None

    Config.reset()
    try:
        expect_raises(lambda: Config.get(), 'get before load', ValueError)
        expect_raises(lambda: config.emissions, 'proxy read before load', ValueError)
        # invalid loads of each kind leave the system unconfigured and a valid load then succeeds
        with tempfile.TemporaryDirectory() as td:
            bad_toml = Path(td) / 'bad.toml'
            bad_toml.write_text('[emissions]\nnox_method = "not-a-method"\n')
            bad_loads = [
                ('invalid option value', lambda: Config.load(data_path_overrides=[data], emissions={'nox_method': 'bogus'})),
                ('invalid value in file', lambda: Config.load(bad_toml, data_path_overrides=[data])),
                ('missing performance model file', lambda: Config.load(data_path_overrides=[data], performance_model='no/such/model.toml')),
                ('missing engine file', lambda: Config.load(data_path_overrides=[data], engine_file='no/such/engines.xlsx')),
                ('missing weather directory', lambda: Config.load(data_path_overrides=[data], weather={'weather_data_dir': 'no/such/dir'})),
                ('missing config file', lambda: Config.load(Path(td) / 'absent.toml', data_path_overrides=[data])),
            ]
            for what, fn in bad_loads:
                expect_raises(fn, what)
                n += 1
                if state() is not None:
                    problems.append(f'failed load ({what}) left a configuration active')
                    Config.reset()
                try:
                    c = Config.load(data_path_overrides=[data])
                    n += 1
                    if Config.get() is not c:
                        problems.append('get() does not return the loaded instance')
                except Exception as e:  # noqa
                    problems.append(f'valid load after failed load ({what}) refused: {e!r}')
                Config.reset()
        c = Config.load(data_path_overrides=[data], emissions={'sox_enabled': False})
        n += 1
        if c.emissions.sox_enabled is not False or c.emissions.co2_enabled is not True:
            problems.append('keyword overlay not effective over defaults')
        expect_raises(lambda: Config.load(data_path_overrides=[data]), 'second load while active')
        if state() is not c:
            problems.append('refused load replaced the active configuration')
        for what, fn in [('outer field', lambda: setattr(config, 'engine_file', 'x')),
                         ('inner emissions field', lambda: setattr(config.emissions, 'sox_enabled', True)),
                         ('inner weather field', lambda: setattr(config.weather, 'use_weather', True)),
                         ('new attribute', lambda: setattr(config, 'brand_new', 1))]:
            expect_raises(fn, f'mutation of {what}')
        if c.emissions.sox_enabled is not False:
            problems.append('mutation went through')
        Config.reset()
        expect_raises(lambda: Config.get(), 'get after reset', ValueError)
        c2 = Config.load(data_path_overrides=[data])
        n += 1
        if c2 is c:
            problems.append('load after reset returned the old instance')
    finally:
        Config.reset()
    return n, problems, facts
