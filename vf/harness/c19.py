"""C19: BADA-3 fuel-burn model, decided per kernel.

K0  parameter access: every engine-model method runs on the library's own Bada3AircraftParameters.
K1a each BADA-3 equation the model implements agrees with an independent transcription (exact NRA, few variables each).
K1b calculate_thrust: selection logic (cap by max climb/cruise thrust, descent substitution when negative).
K2  calculate_specific_ground_range: fuel-flow selection (cruise correction only in cruise), zero-flow guard.
K3  update_mass_vector(_backward): anchored end, trapezoid step, monotone -- for scalar and per-segment distances.
K4  the four iterate_* drivers over K3 with the specific-ground-range kernel as a nondeterministic stub.
"""
from __future__ import annotations

import time

import numpy as np
import z3

import vf.symex as sx
from vf.symex import choose, cur, obj, sym, symnp, ufs

PARAMS = ['c_f1', 'c_f2', 'c_fcr', 'c_d0cr', 'c_d2cr', 'S_ref', 'c_tc1', 'c_tc2', 'c_tc3', 'c_tc4', 'c_tc5', 'c_tcr',
          'c_tdes_low', 'c_tdes_high', 'h_p_des', 'c_tdes_app', 'c_tdes_ld']
ENGINES = ['Jet', 'Turboprop', 'Piston']


def mods():
    import AEIC.BADA.fuel_burn_base as FB
    import AEIC.BADA.model as M
    import AEIC.utils.standard_atmosphere as SA
    return M, FB, SA


def trapz_model(y, x=None, dx=1.0, axis=-1, initial=None):
    """reference model of scipy.integrate.cumulative_trapezoid for 1-D y (dx scalar or array of n-1 spacings)"""
    assert x is None and initial is None
    n = len(y)
    out = []
    acc = 0.0
    for i in range(n - 1):
        d = dx[i] if isinstance(dx, (np.ndarray, list, tuple)) else dx
        acc = acc + d * (y[i] + y[i + 1]) / 2.0
        out.append(acc)
    if cur().concrete:
        return np.array(out, dtype=float)
    return obj(out)


def make_params(engine, positive=True):
    from AEIC.BADA.aircraft_parameters import Bada3AircraftParameters
    ap = Bada3AircraftParameters(engine_type=engine)
    for nme in PARAMS:
        setattr(ap, nme, sym(nme, 0.0, None, lo_strict=positive))
    return ap


def arr(name, n, lo=None, hi=None, strict=False):
    if cur().concrete:
        return np.array([sym(f'{name}{i}', lo, hi, lo_strict=strict) for i in range(n)], dtype=float)
    return obj([sym(f'{name}{i}', lo, hi, lo_strict=strict) for i in range(n)])


def patches(symbolic, extra=()):
    M, FB, SA = mods()
    tr = list(extra)
    if symbolic:
        tr += [(M, 'np', symnp), (FB, 'np', symnp), (SA, 'np', symnp), (FB, 'cumulative_trapezoid', trapz_model)]
    return sx.patched(*tr)


def eq(a, b):
    if sx.is_sym(a) or sx.is_sym(b):
        return sx.SymBool(sx.lift(a) == sx.lift(b))
    return abs(float(a) - float(b)) <= 1e-9 + 1e-7 * (abs(float(a)) + abs(float(b)))


def le(a, b):
    if sx.is_sym(a) or sx.is_sym(b):
        return a <= b
    return float(a) <= float(b) + 1e-9 + 1e-7 * (abs(float(a)) + abs(float(b)))


# ---------------------------------------------------------------------------
# K1a: formulas


def k1a(ex):
    M, FB, SA = mods()
    from AEIC.constants import g0, R_air
    from AEIC.units import METERS_TO_FEET, MPS_TO_KNOTS
    engine = choose('engine', ENGINES)
    which = choose('formula', ['sfc_and_fuel_flow', 'max_climb_isa', 'max_climb', 'cruise_and_descent', 'aero'])
    ap = make_params(engine)
    fm = M.Bada3FuelBurnModel(ap)
    em = fm.engine_model
    v, h, T, thr = sym('v', 1.0, 400.0), sym('h', 0.0, 20000.0), sym('T', 150.0, 350.0), sym('thrust', -1e6, 1e6)
    Tisa = sym('Tisa', 150.0, 350.0)
    kts, ft = v * MPS_TO_KNOTS, h * METERS_TO_FEET
    out = dict(engine=engine, which=which, checks=[])
    add = out['checks'].append
    isa_stub = lambda alt: Tisa       # noqa (ISA temperature is C12's subject)
    with patches(not ex.concrete, [(M, 'temperature_at_altitude_isa_bada4', isa_stub)]):
        if which == 'sfc_and_fuel_flow':
            nom, crz = em.calculate_nominal_fuel_flow(thr, v), em.calculate_cruise_fuel_flow(thr, v)
            if engine == 'Jet':
                sfc = ap.c_f1 * (1 + kts / ap.c_f2) / 60000.0
                add(('nominal fuel flow (3.9-1, 3.9-3)', nom, sfc * thr))
                add(('cruise fuel flow (3.9-6)', crz, sfc * thr * ap.c_fcr))
            elif engine == 'Turboprop':
                sfc = ap.c_f1 * (1 - kts / ap.c_f2) * (kts / 1000.0) / 60000.0
                add(('nominal fuel flow (3.9-2, 3.9-3)', nom, sfc * thr))
                add(('cruise fuel flow (3.9-6)', crz, sfc * thr * ap.c_fcr))
            else:
                add(('piston nominal fuel flow', nom, ap.c_f1))
                add(('piston cruise fuel flow', crz, ap.c_f1 * ap.c_fcr))
        elif which == 'max_climb_isa':
            got = em.calculate_max_climb_thrust_isa(h, v)
            if engine == 'Jet':
                ref = ap.c_tc1 * (1 - ft / ap.c_tc2 + ap.c_tc3 * ft * ft)
            elif engine == 'Turboprop':
                ref = ap.c_tc1 / kts * (1 - ft / ap.c_tc2) + ap.c_tc3
            else:
                ref = ap.c_tc1 * (1 - ft / ap.c_tc2) + ap.c_tc3 / kts
            add(('max climb thrust ISA (3.7-1..3)', got, ref))
        elif which in ('max_climb', 'cruise_and_descent'):
            base = sym('isa_thrust', -1e6, 1e6)
            with sx.patched((type(em), 'calculate_max_climb_thrust_isa', lambda self, a, b: base)):
                got = em.calculate_max_climb_thrust(h, v, T)
                dteff = (T - Tisa) - ap.c_tc4
                x = dteff * sx.sym_max(0.0, ap.c_tc5) if not ex.concrete else dteff * max(0.0, ap.c_tc5)
                clipped = sx.ite(x < 0.0, 0.0, sx.ite(x > 0.4, 0.4, x)) if not ex.concrete else min(max(x, 0.0), 0.4)
                ref = base * (1 - clipped)
                if which == 'max_climb':
                    add(('max climb thrust with temperature correction (3.7-4..7)', got, ref))
                else:
                    add(('max cruise thrust (3.7-8)', em.calculate_max_cruise_thrust(h, v, T), ref * ap.c_tcr))
                    add(('descent thrust high (3.7-9)', em.calculate_descent_thrust_high(h, v, T), ref * ap.c_tdes_high))
                    add(('descent thrust low (3.7-10)', em.calculate_descent_thrust_low(h, v, T), ref * ap.c_tdes_low))
                    add(('descent thrust approach (3.7-11)', em.calculate_descent_thrust_app(h, v, T), ref * ap.c_tdes_app))
                    add(('descent thrust landing (3.7-12)', em.calculate_descent_thrust_land(h, v, T), ref * ap.c_tdes_ld))
        else:
            m, rho, roc, acc = sym('m', 1.0, 6e5), sym('rho', 0.01, 2.0), sym('rocd', -100.0, 100.0), sym('acc', -10.0, 10.0)
            cl = fm.calculate_cl(m, rho, v)
            add(('lift coefficient (3.6-1)', cl, 2 * m * g0 / (rho * ap.S_ref * v * v)))
            clv = sym('cl', 0.0, 5.0)
            add(('drag coefficient (3.6-2)', fm.calculate_cd(clv), ap.c_d0cr + ap.c_d2cr * clv * clv))
            cdv = sym('cd', 0.0, 5.0)
            add(('drag (3.6-5)', fm.calculate_drag(cdv, rho, v), cdv * rho * v * v * ap.S_ref / 2.0))
            dv = sym('drag', 0.0, 1e7)
            add(('total-energy thrust (3.2-1)', fm.calculate_thrust_by_total_energy(dv, m, v, roc, acc), dv + m * g0 * roc / v + m * acc))
            p = sym('p', 100.0, 110000.0)
            add(('air density', SA.calculate_air_density(p, T), p / (R_air * T)))
    return out


def k1a_obligations(o):
    for name, got, ref in o['checks']:
        if isinstance(got, np.ndarray) and got.ndim == 0:
            got = got[()]
        yield 'C19.equation.' + name.split(' (')[0].replace(' ', '_'), f"{o['engine']}: {name}", eq(got, ref)


# ---------------------------------------------------------------------------
# K1b: thrust selection


def k1b(n):
    def fn(ex):
        M, FB, SA = mods()
        engine = choose('engine', ENGINES)
        ap = make_params(engine)
        fm = M.Bada3FuelBurnModel(ap)
        cruise = np.array([choose(f'in_cruise{i}', [True, False]) for i in range(n)])
        te, mc, mcr, dh, dl = (arr(k, n, -1e6, 1e6) for k in ('te', 'maxclimb', 'maxcruise', 'deshigh', 'deslow'))
        alt = arr('alt', n, 0.0, 20000.0)
        em_t = type(fm.engine_model)
        stubs = [(type(fm), 'calculate_thrust_by_total_energy', lambda self, *a: te),
                 (em_t, 'calculate_max_climb_thrust', lambda self, *a: mc), (em_t, 'calculate_max_cruise_thrust', lambda self, *a: mcr),
                 (em_t, 'calculate_descent_thrust_high', lambda self, *a: dh), (em_t, 'calculate_descent_thrust_low', lambda self, *a: dl),
                 (M, 'pressure_at_altitude_isa_bada4', lambda a: arr('p', n, 100.0, 110000.0))]
        with patches(not ex.concrete, stubs):
            got = fm.calculate_thrust(arr('m', n, 1.0, 6e5), arr('T', n, 150.0, 350.0), alt, arr('v', n, 1.0, 400.0), arr('roc', n, -100.0, 100.0),
                                      arr('acc', n, -10.0, 10.0), cruise)
        return dict(engine=engine, n=n, cruise=cruise, te=te, mc=mc, mcr=mcr, dh=dh, dl=dl, alt=alt, hp=ap.h_p_des, got=got)
    return fn


def k1b_obligations(o):
    from AEIC.units import METERS_TO_FEET
    for i in range(o['n']):
        mx = o['mcr'][i] if o['cruise'][i] else o['mc'][i]
        te, got = o['te'][i], o['got'][i]
        capped = sx.ite(te > mx, mx, te) if sx.is_sym(te) else (mx if te > mx else te)
        high = o['alt'][i] * METERS_TO_FEET > o['hp']
        des = sx.ite(high, o['dh'][i], o['dl'][i]) if isinstance(high, sx.SymBool) else (o['dh'][i] if high else o['dl'][i])
        ref = sx.ite(capped < 0.0, des, capped) if sx.is_sym(capped) else (des if capped < 0 else capped)
        yield 'C19.thrust.total_energy_capped_and_descent_substituted', f"{o['engine']} point {i} cruise={bool(o['cruise'][i])}", eq(got, ref)


# ---------------------------------------------------------------------------
# K2: specific ground range


def k2(n):
    def fn(ex):
        M, FB, SA = mods()
        engine = choose('engine', ENGINES)
        ap = make_params(engine)
        fm = M.Bada3FuelBurnModel(ap)
        cruise = np.array([choose(f'in_cruise{i}', [True, False]) for i in range(n)])
        thr = arr('thrust', n, -1e6, 1e6)
        v = arr('v', n, 1.0, 400.0)
        gs = arr('gs', n, 1.0, 500.0)
        with patches(not ex.concrete, [(type(fm), 'calculate_thrust', lambda self, *a: thr)]):
            got = fm.calculate_specific_ground_range(arr('m', n, 1.0, 6e5), arr('T', n, 150.0, 350.0), arr('alt', n, 0.0, 2e4), v, arr('roc', n, -100., 100.),
                                                     arr('acc', n, -10., 10.), cruise, gs)
            nom = fm.engine_model.calculate_nominal_fuel_flow(thr, v)
            crz = fm.engine_model.calculate_cruise_fuel_flow(thr, v)
        return dict(engine=engine, n=n, cruise=cruise, gs=gs, nom=nom, crz=crz, got=got, fcr=ap.c_fcr)
    return fn


def k2_obligations(o):
    for i in range(o['n']):
        def pick(x):
            return x[i] if isinstance(x, np.ndarray) and x.ndim else x
        nom, crz = pick(o['nom']), pick(o['crz'])
        ff = crz if o['cruise'][i] else nom
        got, gs = o['got'][i], o['gs'][i]
        # cruise correction only in cruise: the cruise flow is the nominal flow times c_fcr (K1a) and is used iff in cruise
        zero = ff == 0.0
        if isinstance(zero, sx.SymBool):
            ok = sx.sym_or(sx.sym_and(zero, eq(got, 0.0)), sx.sym_and(sx.sym_not(zero), sx.SymBool(sx.lift(got) * sx.lift(ff) == sx.lift(gs))))
        else:
            ok = eq(got, 0.0) if zero else eq(got * ff, gs)
        yield 'C19.sgr.ground_speed_over_selected_fuel_flow', f"{o['engine']} point {i} cruise={bool(o['cruise'][i])}", ok


# ---------------------------------------------------------------------------
# K3: mass update


def k3(n):
    def fn(ex):
        M, FB, SA = mods()
        direction = choose('direction', ['forward', 'backward'])
        dxkind = choose('segment_distance', ['scalar', 'per_segment'])
        ap = make_params('Jet')
        fm = M.Bada3FuelBurnModel(ap)
        sgr = arr('sgr', n, 0.0, 1e6)
        mass = arr('mass', n, 1.0, 6e5)
        m_anchor = mass[0] if direction == 'forward' else mass[n - 1]
        dx = sym('dx', 0.0, 1e7) if dxkind == 'scalar' else arr('dx', n - 1, 0.0, 1e7)
        with patches(not ex.concrete):
            if ex.concrete:
                FB_ct = None
            got = (fm.update_mass_vector if direction == 'forward' else fm.update_mass_vector_backward)(mass, sgr, dx)
        return dict(n=n, direction=direction, dxkind=dxkind, sgr=sgr, dx=dx, anchor=m_anchor, got=got)
    return fn


def k3_obligations(o):
    n, got, sgr = o['n'], o['got'], o['sgr']
    yield 'C19.mass.length', '', len(got) == n
    end = 0 if o['direction'] == 'forward' else n - 1
    yield 'C19.mass.anchored_at_prescribed_end', o['direction'], eq(got[end], o['anchor'])
    for k in range(n - 1):
        d = o['dx'][k] if o['dxkind'] == 'per_segment' else o['dx']

        def inv(s):
            small = s < 1.0
            if isinstance(small, sx.SymBool):
                return sx.ite(small, 0.0, 1.0 / sx.SymFloat(z3.If(small.t, z3.RealVal(1), s.t)))
            return 0.0 if small else 1.0 / s
        want = d * (inv(sgr[k]) + inv(sgr[k + 1])) / 2.0
        yield 'C19.mass.step_decrease_is_trapezoid_of_fuel_per_distance', f"{o['direction']} {o['dxkind']} step {k}", eq(got[k] - got[k + 1], want)
        yield 'C19.mass.never_increases', f"{o['direction']} {o['dxkind']} step {k}", le(got[k + 1], got[k])


# ---------------------------------------------------------------------------
# K4: iteration drivers


DRIVERS = ['constant_initial_mass', 'constant_final_mass', 'fuel_burn_dependent_initial_mass_rf_fraction', 'fuel_burn_dependent_initial_mass_rf_value']


def k4(n, n_iter_max):
    def fn(ex):
        M, FB, SA = mods()
        driver = choose('driver', DRIVERS)
        n_iter = int(sx.symint('n_iter', 1, n_iter_max))
        ap = make_params('Jet')
        fm = M.Bada3FuelBurnModel(ap)
        calls = []

        def stub_sgr(self, mass, *a):
            k = len(calls)
            s = arr(f'sgr{k}_', n, 1.0, 1e6)
            calls.append((list(mass), s))
            return s
        dx = sym('dx', 0.0, 1e7)
        gs = arr('gs', n, 1.0, 500.0)
        zeros = arr('z', n, 0.0, 1.0)
        args = (zeros, zeros, zeros, zeros, zeros, np.array([True] * n), gs, dx)
        m_given = sym('m_given', 1.0, 6e5)
        extra = {}
        with patches(not ex.concrete, [(type(fm), 'calculate_specific_ground_range', stub_sgr)]):
            f = getattr(fm, 'iterate_flight_simulation_' + driver)
            if driver.startswith('constant'):
                got = f(*args, m_given, n_iter=n_iter)
            else:
                extra = dict(mtow=sym('mtow', 1.0, 6e5), oew=sym('oew', 1.0, 6e5), mpl=sym('mpl', 0.0, 2e5), lf=sym('lf', 0.0, 1.0), rf=sym('rf', 0.0, 1e5))
                got = f(*args, m_given, extra['mtow'], extra['oew'], extra['mpl'], extra['lf'], extra['rf'], n_iter=n_iter)
        return dict(driver=driver, n=n, n_iter=n_iter, got=got, m=m_given, calls=calls, dx=dx, extra=extra)
    return fn


def k4_obligations(o):
    n, got = o['n'], o['got']
    d = o['driver']
    yield 'C19.driver.length', d, len(got) == n
    if d == 'constant_initial_mass':
        yield 'C19.driver.starts_at_prescribed_mass', d, eq(got[0], o['m'])
    elif d == 'constant_final_mass':
        yield 'C19.driver.ends_at_prescribed_mass', d, eq(got[n - 1], o['m'])
    else:
        # only this is claimed for the fuel-dependent variants; before the first correction the estimate is used
        if len(o['calls']) > 1:
            yield 'C19.driver.initial_mass_at_most_mtow', d, le(got[0], o['extra']['mtow'])
    if d.startswith('constant'):
        # the mass profile is the trapezoid integral of the LAST evaluated specific ground range
        s = o['calls'][-1][1]
        for k in range(n - 1):
            want = o['dx'] * (1.0 / s[k] + 1.0 / s[k + 1]) / 2.0
            yield 'C19.driver.step_decrease_is_trapezoid_of_last_iteration', f'{d} step {k}', eq(got[k] - got[k + 1], want)
            yield 'C19.driver.never_increases', f'{d} step {k}', le(got[k + 1], got[k])
        yield 'C19.driver.iterations_bounded', f"{len(o['calls'])} <= {o['n_iter']}", len(o['calls']) <= o['n_iter']
    else:
        for k in range(1, n - 1):
            yield 'C19.driver.never_increases', f'{d} step {k}', le(got[k + 1], got[k])
        yield 'C19.driver.iterations_bounded', f"{len(o['calls'])} <= {o['n_iter']}+1", len(o['calls']) <= o['n_iter'] + 1


KERNELS = {
    'K1a': (lambda b: k1a, k1a_obligations),
    'K1b': (lambda b: k1b(b['n_thrust']), k1b_obligations),
    'K2': (lambda b: k2(b['n_thrust']), k2_obligations),
    'K3': (lambda b: k3(b['n_mass']), k3_obligations),
    'K4': (lambda b: k4(b['n_mass'], b['n_iter']), k4_obligations),
}


def run_kernel(job):
    name, bounds = job['kernel'], job['bounds']
    mk, obl = KERNELS[name]
    fn = mk(bounds)
    ex = sx.Explorer(purify=False, deadline=time.time() + job.get('deadline_s', 600))
    out = dict(kernel=name, obligations={}, violations=[], samples=[], distinct=set(), unknown=[], outcomes={})
    for p in ex.explore(fn):
        if p.exc is not None:
            # an exception of the code under test: internal error (K0)
            oid = 'C19.no_internal_error'
            d = out['obligations'].setdefault(oid, dict(unsat=0, sat=0, unknown=0))
            r, m = ex.check(z3.BoolVal(True), pc=p.pc)
            if r == 'sat':
                d['sat'] += 1
                vals = {k: sx.mval(m, v) for k, v in p.inputs.items()}
                frames = [l for l in (p.tb or '').splitlines() if 'AEIC/BADA' in l]
                out['violations'].append(dict(obligation=oid, detail=f'{type(p.exc).__name__}: {p.exc} at {frames[-1].strip() if frames else "?"}', values=vals,
                                              tags=dict(kernel=name, exception=type(p.exc).__name__, engine=ENGINES[int(vals.get('engine', 0))] if 'engine' in vals else 'Jet')))
            else:
                d['unsat' if r == 'unsat' else 'unknown'] += 1
            continue
        out['obligations'].setdefault('C19.no_internal_error', dict(unsat=0, sat=0, unknown=0))['unsat'] += 1
        o = p.result
        for oid, detail, val in obl(o):
            d = out['obligations'].setdefault(oid, dict(unsat=0, sat=0, unknown=0))
            if isinstance(val, sx.SymBool):
                r, m = ex.prove_sliced(val, pc=p.pc, timeout_ms=job.get('obl_timeout_ms', 30000))
            else:
                r, m = ('unsat', None) if val else ex.check(z3.BoolVal(True), pc=p.pc)
            d[r] += 1
            if r == 'unsat':
                out['distinct'].add((oid, detail))
            elif r == 'sat':
                vals = {k: sx.mval(m, v) for k, v in p.inputs.items()}
                out['violations'].append(dict(obligation=oid, detail=detail, values=vals, tags=dict(kernel=name, case=detail.split(' step')[0].split(' point')[0])))
            else:
                out['unknown'].append(f'{oid} {detail}')
        if len(out['samples']) < 2:
            out['samples'].append({k: str(v)[:90] for k, v in o.items() if k in ('engine', 'which', 'direction', 'dxkind', 'driver', 'n_iter', 'n')})
    out['stats'] = ex.stats
    out['truncated'] = ex.truncated
    out['distinct'] = len(out['distinct'])
    return out


def replay(job, v):
    name, bounds = job['kernel'], job['bounds']
    mk, obl = KERNELS[name]
    run = sx.ConcreteRun(v['values'])
    res, exc = run.run(mk(bounds))
    if exc is not None:
        return v['obligation'] == 'C19.no_internal_error', f'real code on real numpy raised {type(exc).__name__}: {exc}'
    if v['obligation'] == 'C19.no_internal_error':
        return False, 'no exception on replay'
    bad = [(oid, det) for oid, det, val in obl(res) if oid == v['obligation'] and not bool(val)]
    return bool(bad), f'real code on real numpy/scipy: failing {bad[:2]}'
