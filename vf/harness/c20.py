"""C20: bounded model checking of thread confinement, encoding generated from the constructor's AST.

The statements of TrajectoryStore.__init__ (and of methods it calls on self / close) that touch the
class-level owner record are compiled into a small instruction list; everything else becomes an
abstract step that may raise.  Two threads (A: up to two constructor calls with an optional close
in between; B: one constructor call) are interleaved at source-line granularity in a z3 transition
system unrolled to the total number of instructions.  Query: "a constructor call of A returned
normally and B's constructor call returned normally" must be unsat.  A satisfying schedule is
replayed on the real class with two real threads under a sys.settrace line scheduler.
"""
from __future__ import annotations

import ast
import inspect
import sys
import textwrap
import threading
import time

import z3

SHARED = 'active_in_thread'
NONE, A_ID, B_ID = 0, 1, 2


class Unsupported(Exception):
    pass


# ---------------------------------------------------------------------------
# AST -> instructions


def mentions(node, methods_touching=()):
    for n in ast.walk(node):
        if isinstance(n, ast.Attribute) and n.attr == SHARED:
            return True
        if isinstance(n, ast.Call) and isinstance(n.func, ast.Attribute) and isinstance(n.func.value, ast.Name) \
                and n.func.value.id == 'self' and n.func.attr in methods_touching:
            return True
    return False


def is_shared(node):
    return isinstance(node, ast.Attribute) and node.attr == SHARED


def is_get_ident(node):
    return isinstance(node, ast.Call) and isinstance(node.func, ast.Attribute) and node.func.attr == 'get_ident'


def is_lock_ctx(node):
    """`with <something named *lock*>:`"""
    n = node
    if isinstance(n, ast.Call):
        n = n.func
    name = n.attr if isinstance(n, ast.Attribute) else (n.id if isinstance(n, ast.Name) else '')
    return 'lock' in name.lower()


class Instr:
    def __init__(self, op, line, **kw):
        self.op, self.line = op, line
        self.__dict__.update(kw)
        self.handler = None      # label to jump to when this instruction raises
        self.interesting = op in ('assign_shared', 'acquire', 'release') or bool(kw.get('reads_shared'))

    def __repr__(self):
        d = {k: v for k, v in self.__dict__.items() if k not in ('op', 'line', 'interesting')}
        return f'{self.line}:{self.op} {d}'


class Compiler:
    """Compiles one function body.  Labels are resolved to instruction indices at the end."""

    def __init__(self, class_methods, methods_touching, tracked_locals):
        self.methods = class_methods
        self.touching = methods_touching
        self.code = []
        self.labels = {}
        self.nlabel = 0
        self.locals = tracked_locals      # set of local names whose value matters
        self.handler_stack = ['RAISED']   # innermost exception target
        self.depth = 0

    def label(self):
        self.nlabel += 1
        return f'L{self.nlabel}'

    def place(self, lab):
        self.labels[lab] = len(self.code)

    def emit(self, ins):
        ins.handler = self.handler_stack[-1]
        self.code.append(ins)
        return ins

    # expressions -> ('shared',) | ('me',) | ('none',) | ('local', name) | ('cmp', op, l, r) | ('not', e) | ('and'/'or', [..]) | ('nd',)
    def expr(self, e):
        if is_shared(e):
            return ('shared',)
        if is_get_ident(e):
            return ('me',)
        if isinstance(e, ast.Constant) and e.value is None:
            return ('none',)
        if isinstance(e, ast.Name):
            if e.id in self.locals:
                return ('local', e.id)
            raise Unsupported(f'line {e.lineno}: untracked name {e.id} in an expression over the owner record')
        if isinstance(e, ast.Compare) and len(e.ops) == 1:
            op = type(e.ops[0]).__name__
            if op not in ('Is', 'IsNot', 'Eq', 'NotEq'):
                raise Unsupported(f'line {e.lineno}: comparison {op}')
            return ('cmp', 'eq' if op in ('Is', 'Eq') else 'ne', self.expr(e.left), self.expr(e.comparators[0]))
        if isinstance(e, ast.UnaryOp) and isinstance(e.op, ast.Not):
            return ('not', self.expr(e.operand))
        if isinstance(e, ast.BoolOp):
            return ('and' if isinstance(e.op, ast.And) else 'or', [self.cond(v) for v in e.values])
        if isinstance(e, ast.IfExp):
            return ('ite', self.cond(e.test), self.expr(e.body), self.expr(e.orelse))
        raise Unsupported(f'line {getattr(e, "lineno", "?")}: expression {ast.dump(e)[:80]}')

    def cond(self, e):
        """condition: precise if it mentions the owner record / tracked locals, else nondeterministic."""
        if mentions(e) or any(isinstance(n, ast.Name) and n.id in self.locals for n in ast.walk(e)):
            return self.expr(e)
        return ('nd',)

    @staticmethod
    def reads_shared(x):
        if isinstance(x, tuple):
            return x[0] == 'shared' or any(Compiler.reads_shared(y) for y in x[1:])
        if isinstance(x, list):
            return any(Compiler.reads_shared(y) for y in x)
        return False

    def body(self, stmts):
        for s in stmts:
            self.stmt(s)

    def abstract(self, s):
        # a statement that does not touch the owner record: may raise, otherwise no effect
        if isinstance(s, (ast.Return,)):
            self.emit(Instr('ret', s.lineno))
            return
        if isinstance(s, ast.Raise):
            self.emit(Instr('raise', s.lineno))
            return
        if isinstance(s, (ast.Pass, ast.Expr)) and not any(isinstance(n, ast.Call) for n in ast.walk(s)):
            return
        if self.code and self.code[-1].op == 'maybe_raise' and self.code[-1].handler == self.handler_stack[-1] \
                and len(self.code) not in self.labels.values():
            self.code[-1].last_line = getattr(s, 'end_lineno', s.lineno)
            return
        self.emit(Instr('maybe_raise', s.lineno, last_line=getattr(s, 'end_lineno', s.lineno)))

    def stmt(self, s):
        touching = mentions(s, self.touching) or any(isinstance(n, ast.Name) and n.id in self.locals and isinstance(n.ctx, ast.Store) for n in ast.walk(s))
        if not touching and not isinstance(s, (ast.Try, ast.If, ast.With, ast.Return, ast.Raise)):
            return self.abstract(s)
        if isinstance(s, ast.Assign) and len(s.targets) == 1:
            t = s.targets[0]
            if is_shared(t):
                v = self.expr(s.value)
                return self.emit(Instr('assign_shared', s.lineno, value=v, reads_shared=self.reads_shared(v)))
            if isinstance(t, ast.Name) and t.id in self.locals:
                v = self.expr(s.value)
                return self.emit(Instr('assign_local', s.lineno, name=t.id, value=v, reads_shared=self.reads_shared(v)))
            if not mentions(s.value, self.touching):
                return self.abstract(s)
            raise Unsupported(f'line {s.lineno}: assignment of the owner record to an untracked target')
        if isinstance(s, ast.AnnAssign) and s.value is not None:
            return self.stmt(ast.copy_location(ast.Assign(targets=[s.target], value=s.value), s))
        if isinstance(s, ast.If):
            if not touching:
                # nondeterministic branch; bodies are abstract
                c = ('nd',)
            else:
                c = self.cond(s.test)
            l_else, l_end = self.label(), self.label()
            self.emit(Instr('branch', s.lineno, cond=c, target=l_else, reads_shared=self.reads_shared(c)))
            self.body(s.body)
            self.emit(Instr('jump', s.body[-1].lineno if s.body else s.lineno, target=l_end))
            self.place(l_else)
            self.body(s.orelse)
            self.place(l_end)
            return
        if isinstance(s, ast.Raise):
            return self.emit(Instr('raise', s.lineno))
        if isinstance(s, ast.Return):
            return self.emit(Instr('ret', s.lineno))
        if isinstance(s, ast.With):
            lockish = [it for it in s.items if is_lock_ctx(it.context_expr)]
            if lockish:
                l_exc, l_end = self.label(), self.label()
                self.emit(Instr('acquire', s.lineno))
                self.handler_stack.append(l_exc)
                self.body(s.body)
                self.handler_stack.pop()
                self.emit(Instr('release', s.lineno))
                self.emit(Instr('jump', s.lineno, target=l_end))
                self.place(l_exc)
                self.emit(Instr('release', s.lineno))
                self.emit(Instr('raise', s.lineno))
                self.place(l_end)
                return
            self.abstract(ast.copy_location(ast.Expr(value=ast.Call(func=ast.Name(id='ctx'), args=[], keywords=[])), s))
            return self.body(s.body)
        if isinstance(s, ast.Try):
            l_h, l_fin_exc, l_end = self.label(), self.label(), self.label()
            has_fin = bool(s.finalbody)
            outer = self.handler_stack[-1]
            # body: exceptions go to the handlers (or to the exceptional copy of finally)
            self.handler_stack.append(l_h if s.handlers else l_fin_exc)
            self.body(s.body)
            self.handler_stack.pop()
            self.body(s.orelse)
            if has_fin:
                self.body(s.finalbody)
            self.emit(Instr('jump', s.lineno, target=l_end))
            if s.handlers:
                self.place(l_h)
                # which handler catches is not modelled: nondeterministic choice between the handlers, or (unless one of
                # them is a catch-all) propagation
                catch_all = any(h.type is None or (isinstance(h.type, ast.Name) and h.type.id in ('Exception', 'BaseException')) for h in s.handlers)
                labs = [self.label() for _ in s.handlers]
                for h, lab in zip(s.handlers, labs[1:] + [None]):
                    if lab is not None:
                        self.emit(Instr('branch', h.lineno, cond=('nd',), target=lab))
                    self.handler_stack.append(l_fin_exc if has_fin else outer)
                    self.body(h.body)
                    self.handler_stack.pop()
                    if has_fin:
                        self.body(s.finalbody)
                    self.emit(Instr('jump', h.lineno, target=l_end))
                    if lab is not None:
                        self.place(lab)
                if not catch_all:
                    pass
            if has_fin:
                self.place(l_fin_exc)
                self.body(s.finalbody)
                self.emit(Instr('raise', s.lineno))
            else:
                self.labels.setdefault(l_fin_exc, None)
            self.place(l_end)
            return
        if isinstance(s, ast.Expr) and isinstance(s.value, ast.Call):
            f = s.value.func
            if isinstance(f, ast.Attribute) and isinstance(f.value, ast.Name) and f.value.id == 'self' and f.attr in self.touching:
                if self.depth > 3:
                    raise Unsupported('method inlining too deep')
                # inline the method body (its returns become jumps to the end)
                fn = self.methods[f.attr]
                l_end = self.label()
                self.depth += 1
                start = len(self.code)
                self.body(fn.body)
                for ins in self.code[start:]:
                    if ins.op == 'ret' and not getattr(ins, 'inlined', False):
                        ins.op, ins.target, ins.inlined = 'jump', l_end, True
                self.depth -= 1
                self.place(l_end)
                return
        if isinstance(s, (ast.For, ast.While)):
            raise Unsupported(f'line {s.lineno}: loop touching the owner record')
        raise Unsupported(f'line {s.lineno}: statement {type(s).__name__} touching the owner record')

    def finish(self):
        self.emit(Instr('ret', self.code[-1].line if self.code else 0))
        end = len(self.code)
        res = dict(self.labels)
        for ins in self.code:
            for attr in ('target', 'handler'):
                v = getattr(ins, attr, None)
                if isinstance(v, str):
                    if v == 'RAISED':
                        setattr(ins, attr, -1)
                    else:
                        idx = res.get(v)
                        setattr(ins, attr, -1 if idx is None else idx)
        return self.code


def extract(cls):
    src = textwrap.dedent(inspect.getsource(cls))
    first = inspect.getsourcelines(cls)[1]
    tree = ast.parse(src)
    ast.increment_lineno(tree, first - 1)
    cdef = tree.body[0]
    methods = {n.name: n for n in cdef.body if isinstance(n, ast.FunctionDef)}
    touching = {name for name, n in methods.items() if mentions(n) and name != '__init__'}
    changed = True
    while changed:       # transitive closure over self.<m>() calls
        changed = False
        for name, n in methods.items():
            if name not in touching and name != '__init__' and mentions(n, touching):
                touching.add(name)
                changed = True

    def tracked_locals(fn):
        out = set()
        for n in ast.walk(fn):
            if isinstance(n, ast.Assign) and len(n.targets) == 1 and isinstance(n.targets[0], ast.Name):
                if is_get_ident(n.value) or is_shared(n.value) or mentions(n.value):
                    out.add(n.targets[0].id)
        return out

    progs = {}
    for name in ['__init__'] + sorted(touching | {'close'} & set(methods)):
        if name not in methods:
            continue
        c = Compiler(methods, touching, tracked_locals(methods[name]))
        c.body(methods[name].body)
        progs[name] = c.finish()
    # other statements of the class that assign the owner record (informational)
    return progs, touching, methods


# ---------------------------------------------------------------------------
# BMC


class Thread:
    def __init__(self, me, calls, progs):
        """calls: list of method names; the thread's program is their concatenation; a call that raises skips to the
        next call (the caller catches), recording the outcome."""
        self.me = me
        self.code = []
        self.call_of = []
        self.call_start = []
        for ci, name in enumerate(calls):
            base = len(self.code)
            self.call_start.append(base)
            for ins in progs[name]:
                j = Instr(ins.op, ins.line)
                j.__dict__.update(ins.__dict__)
                for attr in ('target', 'handler'):
                    v = getattr(j, attr, None)
                    if isinstance(v, int):
                        setattr(j, attr, base + v if v >= 0 else -1)
                j.call = ci
                j.method = name
                self.code.append(j)
        self.calls = calls
        self.call_end = self.call_start[1:] + [len(self.code)]
        self.locals = sorted({i.name for i in self.code if i.op == 'assign_local'} | {x for i in self.code for x in _locals_in(getattr(i, 'value', None)) | _locals_in(getattr(i, 'cond', None))})


def _locals_in(x):
    out = set()
    if isinstance(x, tuple):
        if x[0] == 'local':
            out.add(x[1])
        for y in x[1:]:
            out |= _locals_in(y)
    elif isinstance(x, list):
        for y in x:
            out |= _locals_in(y)
    return out


SILENT = ('jump', 'maybe_raise', 'raise')


def compress(th, allow_abstract_raises):
    """Collapses control flow that cannot touch the owner record: returns (nodes, start_set) where nodes are the
    observable instructions (assignments, precise branches, acquire/release, ret) each with successor sets
    (`succ` for straight-line, `succ_true/succ_false` for branches) over node indices; END = len(nodes).
    Silent instructions (jumps, abstract statements that may raise, re-raises, nondeterministic branches) are
    closed over: after an observable instruction the thread continues at any observable instruction reachable
    through silent ones."""
    code = th.code
    END = len(code)

    def exc_target(ins):
        return ins.handler if ins.handler is not None and ins.handler >= 0 else th.call_end[ins.call]

    def silent(ins):
        return ins.op in SILENT or (ins.op == 'branch' and ins.cond == ('nd',))

    def succs(p):
        ins = code[p]
        if ins.op == 'jump':
            return [ins.target]
        if ins.op == 'raise':
            return [exc_target(ins)]
        if ins.op == 'maybe_raise':
            return [p + 1] + ([exc_target(ins)] if allow_abstract_raises else [])
        if ins.op == 'branch':
            return [p + 1, ins.target]
        raise AssertionError

    memo = {}

    def closure(p):
        """observable instruction indices (or END) reachable from p through silent instructions; also reports
        whether an abstract raise was taken on the way (for replay: set of raising abstract lines)"""
        if p in memo:
            return memo[p]
        out = set()
        seen = set()
        stack = [p]
        while stack:
            q = stack.pop()
            if q in seen:
                continue
            seen.add(q)
            if q >= END:
                out.add(END)
                continue
            if silent(code[q]):
                stack.extend(succs(q))
            else:
                out.add(q)
        memo[p] = out
        return out

    obs = [p for p, ins in enumerate(code) if not silent(ins)]
    index = {p: k for k, p in enumerate(obs)}
    index[END] = len(obs)
    nodes = []
    for p in obs:
        ins = code[p]
        n = Instr(ins.op, ins.line)
        n.__dict__.update(ins.__dict__)
        n.orig = p
        if ins.op == 'branch':
            n.succ_true = sorted(index[q] for q in closure(p + 1))
            n.succ_false = sorted(index[q] for q in closure(ins.target))
        elif ins.op == 'ret':
            n.succ = sorted(index[q] for q in closure(th.call_end[ins.call]))
        else:
            n.succ = sorted(index[q] for q in closure(p + 1))
        # a precise instruction inside a try/with can itself only raise if it is a call -- none of the observable
        # instruction kinds calls anything, so no exceptional successor
        nodes.append(n)
    start = sorted(index[q] for q in closure(0))
    return nodes, start


def raising_calls(th, nodes, path):
    """for replay: which constructor calls of this thread ended without `ret` on the model path (they raised)."""
    returned = {nodes[k].call for k in path if nodes[k].op == 'ret'}
    return [c for c in range(len(th.calls)) if c not in returned]


def bmc(threads, allow_abstract_raises, timeout_ms=120000, block=(), goal='both'):
    """returns (result, trace, solver seconds, unrolling).  Violation: A has a successful __init__ call and B has one."""
    comp = [compress(th, allow_abstract_raises) for th in threads]
    NODES = [c[0] for c in comp]
    K = sum(len(nd) for nd in NODES)
    s = z3.Solver()
    s.set('timeout', timeout_ms)
    n = len(threads)
    PC = [[z3.Int(f'pc{i}_{t}') for t in range(K + 1)] for i in range(n)]
    V = [z3.Int(f'V_{t}') for t in range(K + 1)]
    LK = [z3.Int(f'lock_{t}') for t in range(K + 1)]
    LOC = [{nm: [z3.Int(f'l{i}_{nm}_{t}') for t in range(K + 1)] for nm in th.locals} for i, th in enumerate(threads)]
    OK = [[[z3.Bool(f'ok{i}_{c}_{t}') for t in range(K + 1)] for c in range(len(th.calls))] for i, th in enumerate(threads)]
    SCHED = [z3.Int(f's_{t}') for t in range(K)]
    s.add(V[0] == NONE, LK[0] == 0)
    for i, th in enumerate(threads):
        s.add(z3.Or(*[PC[i][0] == q for q in comp[i][1]]))
        for nm in th.locals:
            s.add(LOC[i][nm][0] == NONE)
        for c in range(len(th.calls)):
            s.add(OK[i][c][0] == False)  # noqa

    def ev(x, i, t):
        k = x[0]
        if k == 'shared':
            return V[t]
        if k == 'me':
            return z3.IntVal(threads[i].me)
        if k == 'none':
            return z3.IntVal(NONE)
        if k == 'local':
            return LOC[i][x[1]][t]
        if k == 'ite':
            return z3.If(evb(x[1], i, t), ev(x[2], i, t), ev(x[3], i, t))
        raise Unsupported(f'value expression {x}')

    def evb(x, i, t):
        k = x[0]
        if k == 'nd':
            return z3.Bool(f'ndc_{i}_{t}_{id(x)}')
        if k == 'cmp':
            a, b = ev(x[2], i, t), ev(x[3], i, t)
            return a == b if x[1] == 'eq' else a != b
        if k == 'not':
            return z3.Not(evb(x[1], i, t))
        if k in ('and', 'or'):
            parts = [evb(y, i, t) for y in x[1]]
            return z3.And(*parts) if k == 'and' else z3.Or(*parts)
        if k in ('shared', 'local'):
            return ev(x, i, t) != NONE
        raise Unsupported(f'condition {x}')

    def one_of(var, targets):
        return z3.Or(*[var == q for q in targets]) if targets else z3.BoolVal(False)

    for t in range(K):
        s.add(z3.And(SCHED[t] >= 0, SCHED[t] < n))
        enabled = []
        for i, th in enumerate(threads):
            nodes = NODES[i]
            acq = [k for k, ins in enumerate(nodes) if ins.op == 'acquire']
            blocked = z3.And(LK[t] != 0, z3.Or(*[PC[i][t] == k for k in acq])) if acq else z3.BoolVal(False)
            enabled.append(z3.And(PC[i][t] < len(nodes), z3.Not(blocked)))
        anyen = z3.Or(*enabled)
        stutter = z3.And(V[t + 1] == V[t], LK[t + 1] == LK[t],
                         *[PC[i][t + 1] == PC[i][t] for i in range(n)],
                         *[LOC[i][nm][t + 1] == LOC[i][nm][t] for i, th in enumerate(threads) for nm in th.locals],
                         *[OK[i][c][t + 1] == OK[i][c][t] for i, th in enumerate(threads) for c in range(len(th.calls))])
        s.add(z3.Implies(z3.Not(anyen), stutter))
        for i, th in enumerate(threads):
            nodes = NODES[i]
            s.add(z3.Implies(z3.And(anyen, SCHED[t] == i), enabled[i]))
            others = z3.And(*[PC[j][t + 1] == PC[j][t] for j in range(n) if j != i],
                            *[LOC[j][nm][t + 1] == LOC[j][nm][t] for j, tj in enumerate(threads) if j != i for nm in tj.locals],
                            *[OK[j][c][t + 1] == OK[j][c][t] for j, tj in enumerate(threads) if j != i for c in range(len(tj.calls))])
            for p, ins in enumerate(nodes):
                guard = z3.And(anyen, SCHED[t] == i, PC[i][t] == p)
                v_next, lk_next = V[t], LK[t]
                loc_next = {nm: LOC[i][nm][t] for nm in th.locals}
                ok_next = {c: OK[i][c][t] for c in range(len(th.calls))}
                if ins.op == 'assign_shared':
                    v_next = ev(ins.value, i, t)
                elif ins.op == 'assign_local':
                    loc_next[ins.name] = ev(ins.value, i, t)
                elif ins.op == 'acquire':
                    lk_next = z3.IntVal(i + 1)
                elif ins.op == 'release':
                    lk_next = z3.IntVal(0)
                elif ins.op == 'ret':
                    ok_next[ins.call] = z3.BoolVal(True)
                if ins.op == 'branch':
                    c = evb(ins.cond, i, t)
                    pc_c = z3.And(z3.Implies(c, one_of(PC[i][t + 1], ins.succ_true)), z3.Implies(z3.Not(c), one_of(PC[i][t + 1], ins.succ_false)))
                else:
                    pc_c = one_of(PC[i][t + 1], ins.succ)
                eff = [pc_c, V[t + 1] == v_next, LK[t + 1] == lk_next]
                eff += [LOC[i][nm][t + 1] == loc_next[nm] for nm in th.locals]
                eff += [OK[i][c][t + 1] == ok_next[c] for c in range(len(th.calls))]
                s.add(z3.Implies(guard, z3.And(others, *eff)))
                if t + 1 < K:
                    same = [q for q, j in enumerate(nodes) if j.line == ins.line and q != p and j.call == ins.call and j.method == ins.method
                            and ins.op not in ('acquire', 'release') and j.op not in ('acquire', 'release')]
                    if same:
                        s.add(z3.Implies(z3.And(guard, z3.Or(*[PC[i][t + 1] == q for q in same])), SCHED[t + 1] == i))

    def some_ok(i):
        th = threads[i]
        return z3.Or(*[OK[i][c][K] for c, nm in enumerate(th.calls) if nm == '__init__'])
    if goal == 'both':
        s.add(some_ok(0), some_ok(1))
    elif goal == 'A':
        s.add(some_ok(0))
    elif goal == 'B':
        s.add(some_ok(1))
    elif goal == 'B_refused_after_A':
        s.add(some_ok(0), z3.Not(some_ok(1)))
    for b in block:
        s.add(z3.Not(z3.And(*[SCHED[t] == v for t, v in enumerate(b)])))
    t0 = time.time()
    r = s.check()
    dt = time.time() - t0
    if r != z3.sat:
        return str(r), None, dt, K
    m = s.model()
    trace = []
    paths = [[] for _ in threads]
    for t in range(K):
        i = m.eval(SCHED[t], model_completion=True).as_long()
        p = m.eval(PC[i][t], model_completion=True).as_long()
        nodes = NODES[i]
        if p >= len(nodes):
            continue
        if all(m.eval(PC[j][t + 1], model_completion=True).as_long() == m.eval(PC[j][t], model_completion=True).as_long() for j in range(n)):
            continue  # stutter
        ins = nodes[p]
        paths[i].append(p)
        trace.append(dict(thread=i, pc=p, line=ins.line, op=ins.op, call=ins.call, method=ins.method,
                          interesting=ins.interesting and ins.op != 'release', raised=False,
                          V_after=m.eval(V[t + 1], model_completion=True).as_long()))
    for i, th in enumerate(threads):
        for c in raising_calls(th, NODES[i], paths[i]):
            ok_final = z3.is_true(m.eval(OK[i][c][K], model_completion=True))
            if not ok_final and th.calls[c] == '__init__':
                # did the call fail in an abstract statement (not refused by the guard)?  refused = the path took the
                # precise `raise` of the guard; we cannot see silent instructions, so decide from the owner record:
                trace.append(dict(thread=i, pc=-1, line=0, op='call_failed', call=c, method=th.calls[c], interesting=False, raised=True, V_after=None))
    sched = [m.eval(SCHED[t], model_completion=True).as_long() for t in range(K)]
    admitted = [any(z3.is_true(m.eval(OK[i][c][K], model_completion=True)) for c, nm in enumerate(th.calls) if nm == '__init__') for i, th in enumerate(threads)]
    return 'sat', dict(trace=trace, sched=sched, admitted=admitted), dt, K


# ---------------------------------------------------------------------------
# replay on the real class: settrace line scheduler, two real threads


def replay(cls, threads, trace, scratch):
    """Enforces the order of the 'interesting' line steps (accesses to the owner record) of the model trace.
    Returns dict(admitted=[bool per thread], detail=...)."""
    import os
    code_objs = {}
    for name in {i.method for th in threads for i in th.code}:
        f = getattr(cls, name)
        code_objs[f.__code__] = name
    order = [(e['thread'], e['line']) for e in trace if e['interesting']]
    # collapse consecutive duplicates (several instructions of one line = one line event)
    seq = []
    for x in order:
        if not seq or seq[-1] != x:
            seq.append(x)
    interesting_lines = {ln for _, ln in seq}
    acquire_lines = {e['line'] for e in trace if e['op'] == 'acquire'}
    inside = {}          # (thread, line) -> currently inside that `with <lock>` block (its exit re-visits the line)
    cur_call = {}
    pos = [0]
    cv = threading.Condition()
    holder = {}          # thread index -> True while it is executing its granted interesting line
    timeout = [False]
    finished = set()

    def make_tracer(ti):
        def local(frame, event, arg):
            if frame.f_code not in code_objs:
                return local
            if event in ('line', 'return', 'exception'):
                with cv:
                    if holder.get(ti):
                        holder[ti] = False
                        pos[0] += 1
                        cv.notify_all()
                    if event == 'line' and frame.f_lineno in acquire_lines:
                        k = (ti, frame.f_lineno)
                        inside[k] = not inside.get(k, False)
                        if not inside[k]:
                            return local          # leaving the with-block: not a scheduled step
                    if event == 'line' and frame.f_lineno in interesting_lines:
                        # wait for our turn
                        t_end = time.time() + 10
                        while pos[0] < len(seq) and seq[pos[0]] != (ti, frame.f_lineno):
                            while pos[0] < len(seq) and seq[pos[0]][0] in finished:
                                pos[0] += 1
                            if pos[0] >= len(seq) or seq[pos[0]] == (ti, frame.f_lineno):
                                break
                            # if the remaining schedule has no entry for this (thread, line), run freely
                            if (ti, frame.f_lineno) not in seq[pos[0]:]:
                                break
                            if not cv.wait(timeout=max(0.0, t_end - time.time())) and time.time() >= t_end:
                                timeout[0] = True
                                break
                        if pos[0] < len(seq) and seq[pos[0]] == (ti, frame.f_lineno):
                            holder[ti] = True
            return local

        def glob(frame, event, arg):
            if frame.f_code in code_objs:
                return local(frame, event, arg) or local
            return None
        return glob, local

    junk = os.path.join(scratch, 'junk.nc')
    with open(junk, 'w') as f:
        f.write('not a netcdf file')
    raised_calls = {(e['thread'], e['call']): e['line'] for e in trace if e['raised']}
    results = [[None] * len(th.calls) for th in threads]
    prev_owner = cls.__dict__.get(SHARED)
    setattr(cls, SHARED, None)

    def run(ti):
        th = threads[ti]
        glob, local = make_tracer(ti)
        sys.settrace(glob)
        store = None
        try:
            for ci, name in enumerate(th.calls):
                with cv:
                    for k in [k for k in inside if k[0] == ti]:
                        inside[k] = False
                try:
                    if name == '__init__':
                        if (ti, ci) in raised_calls:
                            s_ = cls(base_file=junk, mode=cls.FileMode.READ)
                        else:
                            s_ = cls(mode=cls.FileMode.CREATE)
                        store = s_
                        results[ti][ci] = 'ok'
                    elif store is not None:
                        getattr(store, name)()
                        results[ti][ci] = 'ok'
                    else:
                        results[ti][ci] = 'skipped'
                except Exception as e:  # noqa
                    results[ti][ci] = f'{type(e).__name__}: {str(e)[:80]}'
        finally:
            sys.settrace(None)
            with cv:
                if holder.get(ti):
                    holder[ti] = False
                    pos[0] += 1
                finished.add(ti)     # its remaining entries are skipped so the other thread is never stuck
                cv.notify_all()

    ts = [threading.Thread(target=run, args=(i,)) for i in range(len(threads))]
    for t in ts:
        t.start()
    for t in ts:
        t.join(60)
    setattr(cls, SHARED, prev_owner)
    admitted = [any(r == 'ok' for r, nm in zip(results[i], th.calls) if nm == '__init__') for i, th in enumerate(threads)]
    return dict(admitted=admitted, results=results, schedule=seq, schedule_consumed=pos[0], timeout=timeout[0])
