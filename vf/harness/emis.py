"""C01 / C11: symbolic execution of the real compute_emissions end-to-end.

One harness, two reports.  The configuration is a stub object whose 12
documented options are solver variables (concretising forks, cached per path);
trajectory, LTO, APU and fuel data are symbolic; the transcendental EI kernels
are nondeterministic stubs with the contract "finite, non-negative, pure".
"""
from __future__ import annotations

import itertools
import os
import time

import numpy as np
import z3

import vf.symex as sx
from vf.symex import SymFloat, SymInt, cur, sym, symint, choose, obj, symnp
from vf import common

N_OPTS = None


def _mods():
    import AEIC.emissions.apu as AP
    import AEIC.emissions.emission as E
    import AEIC.emissions.gse as G
    import AEIC.emissions.lto as L
    import AEIC.emissions.trajectory as T
    import AEIC.emissions.utils as U
    import AEIC.emissions.ei.pmvol as PV
    import AEIC.performance.types as PT
    return dict(E=E, T=T, L=L, AP=AP, U=U, G=G, PT=PT, PV=PV)


def option_domains():
    from AEIC.config.emissions import ClimbDescentMode, EINOxMethod, PMnvolMethod, PMvolMethod
    return dict(climb_descent_mode=list(ClimbDescentMode), co2_enabled=[True, False], h2o_enabled=[True, False],
                sox_enabled=[True, False], nox_method=list(EINOxMethod), hc_method=list(EINOxMethod),
                co_method=list(EINOxMethod), pmvol_method=list(PMvolMethod), pmnvol_method=list(PMnvolMethod),
                apu_enabled=[True, False], gse_enabled=[True, False], lifecycle_enabled=[True, False])


class SymEmissionsConfig:
    """option reads are concretising forks (cached per path); derived properties are
    the real property functions of EmissionsConfig bound to this stub."""

    def __init__(self, fixed):
        self._vals = {}
        self._fixed = fixed
        self._doms = option_domains()

    def __getattr__(self, k):
        if k.startswith('_'):
            raise AttributeError(k)
        doms = self.__dict__['_doms']
        if k in doms:
            vals = self.__dict__['_vals']
            if k not in vals:
                dom = doms[k]
                if k in self._fixed:
                    vals[k] = dom[self._fixed[k]]
                    if not cur().concrete:
                        cur().inputs.setdefault('opt_' + k, z3.IntVal(self._fixed[k]))
                else:
                    vals[k] = choose('opt_' + k, dom)
            return vals[k]
        raise AttributeError(k)


def _bind_real_properties():
    from AEIC.config.emissions import EmissionsConfig
    for name in ('nox_enabled', 'hc_enabled', 'co_enabled', 'pmvol_enabled', 'pmnvol_enabled'):
        setattr(SymEmissionsConfig, name, getattr(EmissionsConfig, name))
    es = EmissionsConfig.__dict__['enabled_species']
    SymEmissionsConfig.enabled_species = property(es.func)   # cached_property -> recomputed (pure)
    return [getattr(EmissionsConfig, n).fget for n in ('nox_enabled', 'hc_enabled', 'co_enabled', 'pmvol_enabled', 'pmnvol_enabled')] + [es.func]


class _SymConfig:
    def __init__(self, fixed):
        self.emissions = SymEmissionsConfig(fixed)


class _ConfigProxy:
    def __getattr__(self, k):
        return getattr(cur().notes['config'], k)


def nonneg(a):
    for x in (np.asarray(a, dtype=object).ravel() if isinstance(a, np.ndarray) else [a]):
        cur().assume(x >= 0)
    return a


def vec(name, n, lo=None, hi=None):
    if cur().concrete:
        return np.array([sym(f'{name}{i}', lo, hi) for i in range(n)], dtype=float)
    return obj([sym(f'{name}{i}', lo, hi) for i in range(n)])


class PM:
    pass


class Traj:
    def __init__(self, n):
        self._n = n

    def __len__(self):
        return self._n


BASE_ENV = dict(aircraft_class=0, apu='running', lifecycle=True, windows=(1, 1), cats=None)
ENV_DIMS = ('aircraft_class', 'apu', 'lifecycle', 'windows', 'cats')


def base_cats(N):
    from AEIC.performance.types import ThrustMode
    pat = [ThrustMode.IDLE, ThrustMode.APPROACH, ThrustMode.CLIMB]
    return tuple(pat[i % 3] for i in range(N))


class Harness:
    """env: which 'environment' dimensions are symbolic ('sym') and which are fixed.
    aircraft_class: index | 'sym'; apu: 'running' | 'sym' (presence and running-ness symbolic);
    lifecycle: True | 'sym' (fuel has life-cycle data or not); windows: (n_climb, n_descent) | 'sym';
    cats: tuple of ThrustMode (thrust categories of the points, the real classifier is not run) | None = base
    pattern | 'sym' (the real get_thrust_cat_cruise runs on symbolic fuel flows)."""

    def __init__(self, N, kernels='stub', env=None):
        self.N = N
        self.kernels = kernels            # 'stub' | 'real'
        self.env = dict(BASE_ENV)
        self.env.update(env or {})
        if self.env['cats'] is None:
            self.env['cats'] = base_cats(N)
        self.m = _mods()
        self.executed = []

    def stub_cats(self, ff_eval, ff_cal):
        from AEIC.performance.types import ThrustModeArray
        return ThrustModeArray(np.array([c.value for c in self.env['cats']]))

    # --- patches (module-global names); returned as a context manager
    def patches(self, symbolic=True):
        m = self.m
        T, E, L, AP, U, PT, PV = m['T'], m['E'], m['L'], m['AP'], m['U'], m['PT'], m['PV']
        proxy = _ConfigProxy()
        tr = [(mod, 'config', proxy) for mod in (T, E, L, AP, U)] + [(T, 'print', lambda *a, **k: None)]
        if symbolic:
            tr += [(PT, 'float', sx.float_shadow), (E, 'float', sx.float_shadow), (PT, 'np', symnp), (T, 'np', symnp),
                   (U, 'np', symnp), (E, 'np', symnp), (PV, 'np', symnp), (AP, 'max', sx.sym_max)]
        if self.env['cats'] != 'sym' and self.kernels == 'stub':
            tr += [(T, 'get_thrust_cat_cruise', self.stub_cats)]
        if self.kernels == 'stub':
            tr += [(T, 'EI_HCCO', self.stub_hcco), (T, 'BFFM2_EINOx', self.stub_bffm2), (T, 'AtmosphericState', self.StubAtmos),
                   (T, 'get_SLS_equivalent_fuel_flow', self.stub_sls), (T, 'PMnvol_MEEM', self.stub_meem)]
        return sx.patched(*tr)

    # --- stubs
    def stub_hcco(self, ff, x_EI, ff_cal, Tamb, Pamb):
        k = cur().notes['hcco_calls'] = cur().notes.get('hcco_calls', 0) + 1
        return nonneg(vec(f'hcco{k}_', len(ff)))

    def stub_bffm2(self, sls_equiv_fuel_flow, EI_NOx_matrix, fuelflow_performance, Tamb, Pamb):
        from AEIC.emissions.ei.nox import BFFM2EINOxResult, NOx_speciation
        n = len(sls_equiv_fuel_flow)
        nox = nonneg(vec('noxei', n))
        sp = NOx_speciation()
        cat = self.m['T'].get_thrust_cat_cruise(sls_equiv_fuel_flow, fuelflow_performance)
        no = np.array([sp.no[c] for c in cat])
        no2 = np.array([sp.no2[c] for c in cat])
        ho = np.array([sp.hono[c] for c in cat])
        return BFFM2EINOxResult(NOxEI=nox, NOEI=nox * no, NO2EI=nox * no2, HONOEI=nox * ho, noProp=no, no2Prop=no2, honoProp=ho)

    @property
    def StubAtmos(self):
        N = self.N

        class StubAtmos:
            def __init__(s, alt, tas):
                s.temperature = vec('T', N, 150.0, 320.0)
                s.pressure = vec('P', N, 1000.0, 110000.0)
                s.mach = vec('M', N, 0.0, 0.95)
        return StubAtmos

    def stub_sls(self, **k):
        return nonneg(vec('sls', self.N))

    def stub_meem(self, *a):
        return nonneg(vec('gmd', self.N)), nonneg(vec('pmm', self.N)), nonneg(vec('pmn', self.N))

    # --- inputs
    def build(self, ex, fixed):
        from AEIC.performance.edb import EDBEntry
        from AEIC.performance.types import LTOPerformance, ThrustMode, ThrustModeValues
        from AEIC.types import AircraftClass, Fuel
        N = self.N
        ex.notes['config'] = _SymConfig(fixed)
        self.m['U'].scope11_profile.cache_clear()
        pm = PM()

        def tmv(n, lo=0.0, strict=False):
            return ThrustModeValues({m: sym(f'{n}_{m.value}', lo, None, lo_strict=strict) for m in ThrustMode})
        pm.lto = LTOPerformance(source='s', ICAO_UID='u', rated_thrust=1.0, thrust_pct=ThrustModeValues(7., 30., 85., 100.),
                                fuel_flow=tmv('ltoff', 0.0, True), EI_NOx=tmv('ltonox'), EI_HC=tmv('ltohc'), EI_CO=tmv('ltoco'))
        pm.edb = EDBEntry(engine='e', uid='u', engine_type='TF', BP_Ratio=5.0, rated_thrust=100., fuel_flow=pm.lto.fuel_flow,
                          CO_EI_matrix=pm.lto.EI_CO, HC_EI_matrix=pm.lto.EI_HC, EI_NOx_matrix=pm.lto.EI_NOx,
                          SN_matrix=ThrustModeValues(6., 8., 11., 13.), nvPM_mass_matrix=ThrustModeValues(5., 5.5, 6., 6.5),
                          nvPM_num_matrix=ThrustModeValues(2e14, 2.1e14, 2.2e14, 2.3e14), PR=ThrustModeValues(22., 22., 22., 22.),
                          EImass_max=8., EImass_max_thrust=0.575, EInum_max=2.4e14, EInum_max_thrust=0.575)

        class APU:
            pass
        env = self.env
        apu_present = choose('apu_present', [True, False]) if env['apu'] == 'sym' else True
        if apu_present:
            pm.apu = APU()
            lim = self.apu_limits()
            pm.apu.fuel_kg_per_s = sym('apu_fuel', 0.0, 10 * lim['fuel_kg_per_s'], lo_strict=(env['apu'] != 'sym'))
            for k in ('PM10_g_per_kg', 'NOx_g_per_kg', 'HC_g_per_kg', 'CO_g_per_kg'):
                setattr(pm.apu, k, sym('apu_' + k, 0.0, 10 * lim[k]))
        else:
            pm.apu = None
        pm.aircraft_class = choose('aircraft_class', list(AircraftClass)) if env['aircraft_class'] == 'sym' else list(AircraftClass)[env['aircraft_class']]
        pm.number_of_engines = 2
        fuel = Fuel.model_construct(
            name='symfuel', energy_MJ_per_kg=sym('fuel_energy', 1.0, 200.0), EI_H2O=sym('fuel_EI_H2O', 1.0, 5000.0),
            EI_CO2=sym('fuel_EI_CO2', 1.0, 5000.0), non_volatile_carbon_fraction=0.95,
            lifecycle_CO2=(sym('fuel_lifecycle', 0.0, 200.0) if (env['lifecycle'] is True or choose('lifecycle_present', [True, False])) else None),
            fuel_sulfur_content_nom=sym('fuel_S', 0.0, 5000.0), sulfate_yield_nom=sym('fuel_yield', 0.0, 1.0))
        tr = Traj(N)
        fm = vec('fm', N)
        for i in range(N - 1):
            ex.assume(fm[i] >= fm[i + 1])
        ex.assume(fm[N - 1] >= 0)
        tr.fuel_mass = fm
        tr.fuel_flow = nonneg(vec('ffl', N))
        tr.altitude = vec('alt', N, 0.0, 15000.0)
        tr.true_airspeed = vec('tas', N, 1.0, 330.0)
        if env['windows'] == 'sym':
            tr.n_climb = symint('n_climb', 0, N)
            tr.n_descent = symint('n_descent', 0, N)
            ex.assume(tr.n_climb + tr.n_descent <= N)
        else:
            tr.n_climb, tr.n_descent = env['windows']
        return pm, fuel, tr

    _apu_lim = None

    @classmethod
    def apu_limits(cls):
        if cls._apu_lim is None:
            import tomllib
            from pathlib import Path
            import AEIC
            p = Path(AEIC.__file__).parent / 'data' / 'APU_data.toml'
            lim = dict(fuel_kg_per_s=1.0, PM10_g_per_kg=1.0, NOx_g_per_kg=10.0, HC_g_per_kg=10.0, CO_g_per_kg=50.0)
            try:
                d = tomllib.loads(p.read_text())
                recs = d.get('APU', d if isinstance(d, list) else [])
                if isinstance(recs, dict):
                    recs = list(recs.values())
                for k in lim:
                    vals = [float(r[k]) for r in recs if isinstance(r, dict) and k in r]
                    if vals:
                        lim[k] = max(vals)
            except Exception:
                pass
            cls._apu_lim = lim
        return cls._apu_lim

    def path(self, fixed):
        def fn(ex):
            pm, fuel, tr = self.build(ex, fixed)
            em = self.m['E'].compute_emissions(pm, fuel, tr)
            return pm, fuel, tr, em
        return fn


# ---------------------------------------------------------------------------
# obligations (dual mode: SymFloat -> SymBool, float -> bool)


class NearBool(sx.SymBool):
    """SymBool of |a-b| <= tol with the robust violation |a-b| > 1e-3(|a|+|b|)+1e-6 attached, so that a
    counterexample can be asked to violate the equality by a margin that survives float replay."""
    __slots__ = ('far',)


def near(a, b, rel=1e-9):
    if sx.is_sym(a) or sx.is_sym(b):
        r = NearBool(sx.close(a, b, rel=rel, abs_=1e-12))
        la, lb = sx.lift(a), sx.lift(b)
        r.far = sx.zabs(la - lb) > sx.lift(1e-6) + sx.lift(1e-3) * (sx.zabs(la) + sx.zabs(lb))
        return r
    a, b = float(a), float(b)
    return abs(a - b) <= 1e-9 + 1e-6 * (abs(a) + abs(b))


def ge0(a):
    if sx.is_sym(a):
        return a >= 0
    return bool(a >= -1e-9) and np.isfinite(a)


def _sum(xs):
    xs = list(xs)
    r = 0.0
    for x in xs:
        r = r + x
    return r


def c01_obligations(pm, fuel, tr, em, cfg, N):
    """yield (obligation id, detail, value) -- value is SymBool/bool that must hold."""
    from AEIC.config.emissions import ClimbDescentMode
    from AEIC.performance.types import ThrustMode
    from AEIC.types import Species
    from AEIC.emissions.lto import _LTO_TIMS
    mode = cfg.climb_descent_mode
    apu_on = bool(cfg.apu_enabled) and pm.apu is not None
    gse_on = bool(cfg.gse_enabled)
    # (a) totals
    for sp in Species:
        parts = 0.0
        if sp in em.trajectory_emissions:
            parts = parts + _sum(em.trajectory_emissions[sp])
        if sp in em.lto_emissions:
            parts = parts + _sum(em.lto_emissions[sp][m] for m in ThrustMode)
        if sp in em.apu_emissions:
            parts = parts + em.apu_emissions[sp]
        if sp in em.gse_emissions:
            parts = parts + em.gse_emissions[sp]
        if sp == Species.CO2:
            parts = parts + em.lifecycle_co2
        tot = em.total_emissions[sp] if sp in em.total_emissions else 0.0
        yield 'C01.total.sum_of_parts', sp.name, near(tot, parts)
        yield 'C01.nonneg.total', sp.name, ge0(tot)
    # (b) per-segment = index * fuel burn
    fb = em.fuel_burn_per_segment
    yield 'C01.segment.fuel_burn_first_zero', '', near(fb[0], 0.0)
    for i in range(1, N):
        yield 'C01.segment.fuel_burn_is_mass_difference', f'i={i}', near(fb[i], tr.fuel_mass[i - 1] - tr.fuel_mass[i])
    yield 'C01.segment.same_species', '', set(em.trajectory_emissions.keys()) == set(em.trajectory_indices.keys())
    for sp in em.trajectory_emissions.keys():
        for i in range(N):
            yield 'C01.segment.emission_is_index_times_fuel', f'{sp.name} i={i}', near(em.trajectory_emissions[sp][i], em.trajectory_indices[sp][i] * fb[i])
            yield 'C01.nonneg.trajectory', f'{sp.name} i={i}', ge0(em.trajectory_emissions[sp][i])
    # LTO: emissions = index * TIM * ff, with mode zeroing
    lto_fuel = 0.0
    for m in ThrustMode:
        counted = (mode == ClimbDescentMode.LTO) or m in (ThrustMode.IDLE, ThrustMode.TAKEOFF)
        f_m = _LTO_TIMS[m] * pm.lto.fuel_flow[m] if counted else 0.0
        lto_fuel = lto_fuel + f_m
        for sp in em.lto_emissions.keys():
            yield 'C01.lto.emission_is_index_times_tim_fuel', f'{sp.name} {m.value}', near(em.lto_emissions[sp][m], em.lto_indices[sp][m] * f_m)
            yield 'C01.nonneg.lto', f'{sp.name} {m.value}', ge0(em.lto_emissions[sp][m])
    # APU
    apu_fuel = 0.0
    if apu_on:
        apu_fuel = pm.apu.fuel_kg_per_s * 900
        for sp in em.apu_emissions.keys():
            yield 'C01.apu.emission_is_index_times_fuel', sp.name, near(em.apu_emissions[sp], em.apu_indices[sp] * apu_fuel)
            yield 'C01.nonneg.apu', sp.name, ge0(em.apu_emissions[sp])
    else:
        yield 'C01.apu.absent_when_disabled', '', len(em.apu_emissions.keys()) == 0
    gse_fuel = 0.0
    if gse_on:
        nominal_co2 = {'wide': 58e3, 'narrow': 18e3, 'small': 10e3, 'freight': 58e3}[str(pm.aircraft_class.value).lower()] if hasattr(pm.aircraft_class, 'value') else None
        gse_fuel = em.gse_emissions[Species.CO2] / fuel.EI_CO2
        if nominal_co2 is not None:
            yield 'C01.gse.nominal_co2', '', near(em.gse_emissions[Species.CO2], nominal_co2)
        yield 'C01.gse.h2o_is_ei_times_fuel', '', near(em.gse_emissions[Species.H2O], fuel.EI_H2O * gse_fuel)
        for sp in em.gse_emissions.keys():
            yield 'C01.nonneg.gse', sp.name, ge0(em.gse_emissions[sp])
    else:
        yield 'C01.gse.absent_when_disabled', '', len(em.gse_emissions.keys()) == 0
    # (c) total fuel burn: window fuel re-summed independently from fuel_mass
    if mode == ClimbDescentMode.LTO:
        lo, hi = int(tr.n_climb), N - int(tr.n_descent)
    else:
        lo, hi = 0, N
    window_fuel = 0.0
    for i in range(max(lo, 1), hi):
        window_fuel = window_fuel + (tr.fuel_mass[i - 1] - tr.fuel_mass[i])
    yield 'C01.fuel.total_is_sum_of_components', '', near(em.total_fuel_burn, window_fuel + lto_fuel + apu_fuel + gse_fuel)
    # (d) every kg counted once: trajectory+LTO CO2 / H2O = EI * (trajectory fuel + LTO fuel)
    for sp, ei in ((Species.CO2, fuel.EI_CO2), (Species.H2O, fuel.EI_H2O)):
        if sp in em.trajectory_emissions and sp in em.lto_emissions:
            got = _sum(em.trajectory_emissions[sp]) + _sum(em.lto_emissions[sp][m] for m in ThrustMode)
            yield 'C01.once.traj_plus_lto_equals_ei_times_fuel', sp.name, near(got, ei * (window_fuel + lto_fuel))
    # (e) speciation sums
    def comp_sets():
        yield 'trajectory', em.trajectory_emissions, range(N)
        yield 'lto', em.lto_emissions, list(ThrustMode)
        yield 'apu', em.apu_emissions, None
        yield 'gse', em.gse_emissions, None
    for cname, d, keys in comp_sets():
        for tot, parts in ((Species.NOx, (Species.NO, Species.NO2, Species.HONO)), (Species.SOx, (Species.SO2, Species.SO4))):
            if tot in d and all(p in d for p in parts):
                if keys is None:
                    yield f'C01.speciation.{tot.name}', cname, near(d[tot], _sum(d[p] for p in parts))
                else:
                    for k in keys:
                        yield f'C01.speciation.{tot.name}', f'{cname} {k}', near(d[tot][k], _sum(d[p][k] for p in parts))
            elif tot in d or any(p in d for p in parts):
                yield f'C01.speciation.{tot.name}.all_or_none', cname, False
    # lifecycle
    if Species.CO2 in cfg.enabled_species and cfg.lifecycle_enabled:
        yield 'C01.lifecycle.value', '', near(em.lifecycle_co2, fuel.lifecycle_CO2 * ((tr.fuel_mass[0] - tr.fuel_mass[N - 1]) * fuel.energy_MJ_per_kg))
    else:
        yield 'C01.lifecycle.zero_when_disabled', '', near(em.lifecycle_co2, 0.0)


def c11_species_off(em, cfg, N):
    """a species switched off contributes nothing (absent or zero) to trajectory and LTO parts."""
    from AEIC.performance.types import ThrustMode
    from AEIC.types import Species
    off = []
    if not cfg.co2_enabled:
        off.append(Species.CO2)
    if not cfg.h2o_enabled:
        off.append(Species.H2O)
    if not cfg.sox_enabled:
        off += [Species.SOx, Species.SO2, Species.SO4]
    if str(cfg.nox_method.value) == 'none':
        off += [Species.NOx, Species.NO, Species.NO2, Species.HONO]
    if str(cfg.hc_method.value) == 'none':
        off.append(Species.HC)
    if str(cfg.co_method.value) == 'none':
        off.append(Species.CO)
    if str(cfg.pmvol_method.value) == 'none':
        off += [Species.PMvol, Species.OCic]
    if str(cfg.pmnvol_method.value) == 'none':
        off += [Species.PMnvol, Species.PMnvolN]
    for sp in off:
        if sp in em.trajectory_emissions:
            for i in range(N):
                yield 'C11.species_off.trajectory', f'{sp.name} i={i}', near(em.trajectory_emissions[sp][i], 0.0)
        if sp in em.lto_emissions:
            for m in ThrustMode:
                yield 'C11.species_off.lto', f'{sp.name} {m.value}', near(em.lto_emissions[sp][m], 0.0)


ACCEPTED_REFUSALS = (NotImplementedError, ValueError, RuntimeError)


def classify_exception(exc, cfgvals):
    """'refusal' if the exception is a documented refusal naming the configured value of an option."""
    if isinstance(exc, ACCEPTED_REFUSALS):
        msg = str(exc).lower()
        for k, v in cfgvals.items():
            val = str(getattr(v, 'value', v)).lower()
            if val in ('true', 'false'):
                continue
            if val and val in msg:
                return 'refusal', k
        if isinstance(exc, RuntimeError) and 'lifecycle' in msg:
            return 'refusal', 'lifecycle'
        return 'unnamed_refusal', None
    return 'internal_error', None


# ---------------------------------------------------------------------------
# one job = one case split (some options fixed), explored symbolically


def cfg_summary(vals):
    return {k: str(getattr(v, 'value', v)) for k, v in sorted(vals.items())}


def run_job(job):
    """job: dict(fixed={opt: idx}, N=, which='C01'|'C11', deadline_s=, obl_timeout_ms=)"""
    fixed, N, which = job['fixed'], job['N'], job['which']
    _bind_real_properties()
    h = Harness(N, env=job.get('env'))
    ex = sx.Explorer(purify=False, deadline=time.time() + job.get('deadline_s', 600), name=str(fixed))
    out = dict(fixed=fixed, obligations={}, violations=[], outcomes={}, samples=[], distinct=set(), truncated=False,
               undefined=[], unknown=[])
    with h.patches(symbolic=True):
        for p in ex.explore(h.path(fixed)):
            cfgvals = dict(p.notes['config'].emissions._vals)
            csum = cfg_summary(cfgvals)
            shape = tuple(sorted(csum.items()))
            if p.exc is not None:
                kind, opt = classify_exception(p.exc, cfgvals)
                key = f'{kind}:{type(p.exc).__name__}'
                out['outcomes'][key] = out['outcomes'].get(key, 0) + 1
                out['distinct'].add(('exc', key, shape))
                if which == 'C11':
                    oid = 'C11.outcome.no_internal_error'
                    d = out['obligations'].setdefault(oid, dict(unsat=0, sat=0, unknown=0))
                    if kind == 'refusal':
                        d['unsat'] += 1
                    else:
                        # the path is feasible by construction (explorer only follows feasible branches); get a model
                        r, m = ex.check(z3.BoolVal(True), pc=p.pc, timeout_ms=job.get('obl_timeout_ms', 10000))
                        if r == 'sat':
                            d['sat'] += 1
                            vals = {k: sx.mval(m, v) for k, v in p.inputs.items()}
                            out['violations'].append(dict(obligation=oid, config=csum, exc=f'{type(p.exc).__name__}: {p.exc}'[:300],
                                                          kind=kind, values=vals, fixed=fixed, N=N, env=job.get('env'),
                                                          tb=(p.tb or '')[-600:]))
                        elif r == 'unsat':
                            d['unsat'] += 1     # vacuous path
                        else:
                            d['unknown'] += 1
                            out['unknown'].append(f'{oid} {csum}')
                continue
            out['outcomes']['returned'] = out['outcomes'].get('returned', 0) + 1
            pm, fuel, tr, em = p.result
            cfg = p.notes['config'].emissions
            if which == 'C01':
                obls = list(c01_obligations(pm, fuel, tr, em, cfg, N))
                # definedness obligations: every division/log the code performed is defined
                for cond, what in p.defined:
                    obls.append(('C01.finite.' + what.split(':')[0], what, sx.SymBool(cond)))
            else:
                obls = list(c11_species_off(em, cfg, N))
                obls.append(('C11.outcome.no_internal_error', '', True))
            # group obligations by id: one query per id (a single conjunction over all ids was measured 20x slower)
            groups = {}
            for oid, detail, val in obls:
                groups.setdefault(oid, []).append((detail, val))
            for oid, items in groups.items():
                d = out['obligations'].setdefault(oid, dict(unsat=0, sat=0, unknown=0))
                conc_false = [det for det, v in items if isinstance(v, (bool, np.bool_)) and not v]
                symb = [sx.liftb(v) for det, v in items if isinstance(v, sx.SymBool)]
                if conc_false:
                    r, m = ex.check(z3.BoolVal(True), pc=p.pc, timeout_ms=job.get('obl_timeout_ms', 10000))
                    if r == 'sat':
                        d['sat'] += 1
                        vals = {k: sx.mval(m, v) for k, v in p.inputs.items()}
                        out['violations'].append(dict(obligation=oid, config=csum, detail=str(conc_false[:3]), values=vals, fixed=fixed, N=N, env=job.get('env')))
                        continue
                if not symb:
                    d['unsat'] += 1
                    out['distinct'].add((oid, shape))
                    continue
                r, m = ex.prove_sliced(z3.And(*symb), pc=p.pc, timeout_ms=job.get('obl_timeout_ms', 10000))
                d[r] += 1
                if r == 'unsat':
                    out['distinct'].add((oid, shape))
                elif r == 'sat':
                    fars = [v.far for det, v in items if isinstance(v, NearBool)]
                    if fars:        # prefer a counterexample that violates an equality by a margin (robust under float replay)
                        r2, m2 = ex.check(z3.Or(*fars), pc=p.pc, timeout_ms=job.get('obl_timeout_ms', 10000))
                        if r2 == 'sat':
                            m = m2
                    vals = {k: sx.mval(m, v) for k, v in p.inputs.items()}
                    failing = [det for det, v in items if isinstance(v, sx.SymBool) and not z3.is_true(m.eval(v.t, model_completion=True))]
                    out['violations'].append(dict(obligation=oid, config=csum, detail=str(failing[:4]), values=vals, fixed=fixed, N=N, env=job.get('env')))
                else:
                    out['unknown'].append(f'{oid} {csum}')
            if len(out['samples']) < 2:
                out['samples'].append(dict(config=csum, n_path_conditions=len(p.pc),
                                           total_CO2=str(em.total_emissions.get(1, '') if hasattr(em.total_emissions, 'get') else '')[:200]))
    out['truncated'] = ex.truncated
    out['stats'] = ex.stats
    out['distinct'] = len(out['distinct'])
    return out


# ---------------------------------------------------------------------------
# concrete replay of a counterexample on the real code (real numpy, nothing shimmed)


def replay(v, which):
    """returns (reproduced: bool, detail)"""
    N = v['N']
    _bind_real_properties()
    doms = option_domains()
    fixed = dict(v['fixed'])
    values = dict(v['values'])
    for k in doms:
        if ('opt_' + k) in values:
            fixed.setdefault(k, int(values['opt_' + k]))
    results = []
    for kernels in ('stub', 'real'):
        env = v.get('env')
        if env and isinstance(env.get('cats'), (list, tuple)):
            from AEIC.performance.types import ThrustMode
            env = dict(env, cats=tuple(ThrustMode(str(getattr(c, 'value', c))) for c in env['cats']))
        if env and isinstance(env.get('windows'), list):
            env = dict(env, windows=tuple(env['windows']))
        h = Harness(N, kernels=kernels, env=env)
        run = sx.ConcreteRun(values)
        with h.patches(symbolic=False):
            res, exc = run.run(h.path(fixed))
        cfg = run.notes['config'].emissions
        if exc is not None:
            kind, _ = classify_exception(exc, dict(cfg._vals))
            bad = (which == 'C11' and kind != 'refusal' and v['obligation'] == 'C11.outcome.no_internal_error')
            results.append((kernels, bad, f'{type(exc).__name__}: {exc}'[:200]))
            continue
        pm, fuel, tr, em = res
        obls = list(c01_obligations(pm, fuel, tr, em, cfg, N)) if which == 'C01' else list(c11_species_off(em, cfg, N))
        failing = [(oid, det) for oid, det, val in obls if oid == v['obligation'] and not bool(val)]
        results.append((kernels, bool(failing), str(failing[:3])))
    reproduced = any(b for _, b, _ in results)
    return reproduced, '; '.join(f'{k}-kernels: {"reproduced" if b else "not reproduced"} {d}' for k, b, d in results)


def public_api_replay(cfgsum):
    """stage (b): real Config.load(emissions=...) + compute_emissions on the repo's own dummy inputs."""
    import subprocess, sys, json
    code = r'''
import sys, json, os
sys.path.insert(0, os.path.join(REPO, 'tests'))
os.environ['AEIC_PATH'] = os.path.join(REPO, 'tests', 'data')
from AEIC.config import Config
opts = json.loads(sys.argv[1])
Config.load(data_path_overrides=[os.path.join(REPO, 'tests', 'data')], emissions=opts)
import test_emissions as te
from AEIC.emissions.emission import compute_emissions
import tomllib
from AEIC.config import config
from AEIC.types import Fuel
with open(config.emissions.fuel_file, 'rb') as fp:
    fuel = Fuel.model_validate(tomllib.load(fp))
try:
    compute_emissions(te.DummyPerformanceModel(), fuel, te.DummyTrajectory())
    print('RETURNED')
except Exception as e:
    print('EXC', type(e).__name__, str(e)[:200])
'''
    import AEIC
    from pathlib import Path
    repo = str(Path(AEIC.__file__).resolve().parents[2])
    opts = {k: (v == 'True' if v in ('True', 'False') else v) for k, v in cfgsum.items()}
    try:
        r = subprocess.run([sys.executable, '-c', f'REPO={repo!r}\n' + code, json.dumps(opts)], capture_output=True, text=True, timeout=120)
        return (r.stdout.strip().splitlines() or ['(no output) ' + r.stderr[-300:]])[-1]
    except Exception as e:  # noqa
        return f'public-API replay failed to run: {e}'


def vacuity_and_concolic(which, N):
    """Reachability twin + concolic cross-check.  For a few fully fixed configurations the harness is explored,
    `assert False` at the end of the first returning path must be satisfiable, and its model is replayed on the real
    code with real numpy; the symbolic output terms evaluated under the model must agree (1e-9) with the concrete run."""
    _bind_real_properties()
    from AEIC.types import Species
    doms = option_domains()
    cfgs = [dict(climb_descent_mode=m, co2_enabled=0, h2o_enabled=0, sox_enabled=0, nox_method=0, hc_method=0, co_method=0,
                 pmvol_method=0, pmnvol_method=pn, apu_enabled=0, gse_enabled=0, lifecycle_enabled=0) for m, pn in ((0, 0), (1, 1))]
    res = dict(name='vacuity twin + concolic cross-check', ok=True, replayed=0, max_rel_err=0.0, cases=[])
    for fixed in cfgs:
        h = Harness(N)
        ex = sx.Explorer(purify=False, deadline=time.time() + 120)
        case = None
        with h.patches(symbolic=True):
            for p in ex.explore(h.path(fixed)):
                if p.exc is not None:
                    continue
                r, m = ex.check(z3.BoolVal(True), pc=p.pc, timeout_ms=20000)     # negation of `False`
                if r != 'sat':
                    continue
                pm, fuel, tr, em = p.result
                vals = {k: sx.mval(m, v) for k, v in p.inputs.items()}
                symtot = {sp.name: float(sx.mval(m, em.total_emissions[sp])) for sp in Species if sp in em.total_emissions}
                symfuel = float(sx.mval(m, em.total_fuel_burn))
                case = (vals, symtot, symfuel)
                break
        if case is None:
            res['ok'] = False
            res['cases'].append(dict(config=fixed, error='no returning path with a satisfiable path condition'))
            continue
        vals, symtot, symfuel = case
        h2 = Harness(N)
        run = sx.ConcreteRun(vals)
        with h2.patches(symbolic=False):
            out, exc = run.run(h2.path(fixed))
        if exc is not None:
            res['ok'] = False
            res['cases'].append(dict(config=fixed, error=f'concrete replay raised {type(exc).__name__}: {exc}'))
            continue
        pm, fuel, tr, em = out
        worst = 0.0
        for spn, sv in symtot.items():
            cv = float(em.total_emissions[Species[spn]])
            worst = max(worst, abs(cv - sv) / (1e-12 + abs(cv) + abs(sv)))
        worst = max(worst, abs(float(em.total_fuel_burn) - symfuel) / (1e-12 + abs(symfuel) + abs(float(em.total_fuel_burn))))
        res['max_rel_err'] = max(res['max_rel_err'], worst)
        res['replayed'] += 1
        if worst > 1e-9:
            res['ok'] = False
        cfg = run.notes['config'].emissions
        bad = [(o, d) for o, d, v in c01_obligations(pm, fuel, tr, em, cfg, N) if not bool(v)]
        res['cases'].append(dict(config=cfg_summary(cfg._vals), symbolic_vs_concrete_max_rel_err=worst,
                                 concrete_obligations_failing=[str(b) for b in bad[:3]], sample_inputs={k: vals[k] for k in list(vals)[:6]}))
    return res
