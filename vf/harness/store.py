"""Shared pieces for the trajectory-store properties (C03, C07-C10): backends, tagged trajectories, list model."""
from __future__ import annotations

import os
import shutil
import tempfile
from pathlib import Path

import numpy as np

import vf.symex as sx
from vf.models import fakenc


def mods():
    import AEIC.storage.field_sets as FS
    import AEIC.trajectories.store as ST
    import AEIC.trajectories.trajectory as TR
    return ST, FS, TR


class backend:
    """context manager: 'fake' substitutes the netCDF4 model in the two AEIC modules, 'real' leaves the library"""

    def __init__(self, kind='fake', nbytes=None):
        self.kind, self.nbytes = kind, nbytes
        self.p = None

    def __enter__(self):
        ST, FS, TR = mods()
        tr = []
        if self.kind == 'fake':
            tr += [(ST, 'nc4', fakenc), (FS, 'nc4', fakenc)]
        if self.nbytes is not None:
            tr += [(TR.Trajectory, 'nbytes', property(lambda s, n=self.nbytes: n))]
        self.p = sx.patched(*tr)
        self.p.__enter__()
        self.saved_owner = ST.TrajectoryStore.active_in_thread
        return self

    def __exit__(self, *a):
        ST, FS, TR = mods()
        ST.TrajectoryStore.active_in_thread = self.saved_owner
        return self.p.__exit__(*a)


class Scratch:
    def __init__(self, tag='store'):
        base = os.environ.get('TMPDIR', '/tmp')
        self.dir = Path(tempfile.mkdtemp(prefix=f'aeic-verif-{tag}-', dir=base))

    def __enter__(self):
        return self.dir

    def __exit__(self, *a):
        shutil.rmtree(self.dir, ignore_errors=True)
        return False


POINT_FIELDS = ['fuel_flow', 'aircraft_mass', 'fuel_mass', 'ground_distance', 'altitude', 'flight_level', 'rate_of_climb', 'flight_time',
                'latitude', 'longitude', 'azimuth', 'heading', 'true_airspeed', 'ground_speed']


def make_traj(tag, flight_id=None, npoints=2, fieldsets=None, name=True):
    """a small concrete trajectory whose every value encodes `tag` (so that any mix-up of trajectories shows)"""
    ST, FS, TR = mods()
    t = TR.Trajectory(npoints, name=(f'traj_{tag}' if name else None), fieldsets=fieldsets)
    if flight_id is not None:
        if type(flight_id).__name__ == 'SymInt':
            t._data['flight_id'] = flight_id           # solver integer: stored as it is
        else:
            t.flight_id = flight_id
    for k, f in enumerate(POINT_FIELDS):
        setattr(t, f, np.array([float(tag) * 1000.0 + k * 10.0 + i for i in range(npoints)]))
    t.starting_mass = float(tag)
    t.total_fuel_mass = float(tag) + 0.5
    t.n_climb, t.n_cruise, t.n_descent = 1, max(npoints - 2, 0), 1
    return t


def tag_of(traj):
    return int(round(float(traj.starting_mass)))


def check_payload(traj, tag):
    """every stored value of the trajectory is the one make_traj(tag) produced"""
    if tag_of(traj) != tag:
        return False
    n = len(traj)
    for k, f in enumerate(POINT_FIELDS):
        v = getattr(traj, f)
        if len(v) != n or any(abs(float(v[i]) - (float(tag) * 1000.0 + k * 10.0 + i)) > 1e-9 for i in range(n)):
            return False
    return abs(float(traj.total_fuel_mass) - (tag + 0.5)) < 1e-9
