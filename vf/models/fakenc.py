"""Model of the netCDF4 API surface used by AEIC's store.py / field_sets.py (contract: DESIGN.md Appendix A).

State lives in a registry keyed by a token written into a real placeholder file, so the store's own path handling
(exists, mkdir, rename, json) runs unmodified on a real scratch directory.  Cells hold Python objects, so flight
identifiers and payload tags may be solver symbols.  Trusted only because the repository's own storage tests pass
with this module substituted for netCDF4 (checked by vf.models.fakenc_validate)."""
import numpy as np, os, uuid
from pathlib import Path
_STATE = {}          # token -> root state dict
_FILLS = {np.dtype('float64'): 9.969209968386869e+36, np.dtype('int64'): -9223372036854775806, np.dtype('int32'): -2147483647, np.dtype('float32'): 9.969209968386869e+36}
_RESERVED = {'name','datatype','dtype','dimensions','_attrs','_cells','_root','_automask','_group'}

class VLType:
    def __init__(self, dtype, name): self.dtype = np.dtype(dtype) if dtype is not str else str; self.name = name
class _StrVL(VLType):
    def __init__(self): self.dtype = str; self.name = 'str'
class Dimension:
    def __init__(self, root, name, size): self._root, self.name, self._size = root, name, size
    def isunlimited(self): return self._size is None
    def __len__(self): return self._root['ulen'].get(self.name, 0) if self._size is None else self._size
class _Attrs:
    def _setattr(self, k, v):
        if isinstance(v, (list, tuple)) and all(isinstance(x, str) for x in v): v = list(v)
        elif isinstance(v, (int, np.integer)) and not isinstance(v, bool): v = np.int64(v)
        elif isinstance(v, float): v = np.float64(v)
        self._attrs[k] = v
    def _getattr(self, k):
        v = self._attrs[k]
        if isinstance(v, list) and len(v) == 1: return v[0]
        return v
    def ncattrs(self): return list(self._attrs)
    def getncattr(self, k): return self._getattr(k)
    def setncattr(self, k, v): self._setattr(k, v)
class Variable(_Attrs):
    def __init__(self, root, group, name, datatype, dimensions):
        d = object.__setattr__
        d(self, '_root', root); d(self, '_group', group); d(self, 'name', name); d(self, '_attrs', {}); d(self, '_cells', {}); d(self, '_automask', True)
        if datatype is str: dt = _StrVL(); d(self, 'dtype', str)
        elif isinstance(datatype, VLType): dt = datatype; d(self, 'dtype', datatype.dtype)
        else: dt = np.dtype(datatype); d(self, 'dtype', dt)
        d(self, 'datatype', dt)
        d(self, 'dimensions', (dimensions,) if isinstance(dimensions, str) else tuple(dimensions))
    def __setattr__(self, k, v):
        if k in _RESERVED: object.__setattr__(self, k, v)
        else: self._setattr(k, v)
    def __getattr__(self, k):
        try: return self._getattr(k)
        except KeyError: raise AttributeError(k)
    def set_auto_mask(self, b): object.__setattr__(self, '_automask', b)
    def set_always_mask(self, b): pass
    def __len__(self): return self._dimlen(0)
    def get_fill_value(self):
        if isinstance(self.datatype, VLType): return None
        return np.array(_FILLS[self.datatype], dtype=self.datatype)
    def _dimlen(self, i): return len(self._root['dims'][self.dimensions[i]])
    def _norm(self, key):
        key = key if isinstance(key, tuple) else (key,)
        out = []
        for i, k in enumerate(key):
            k = int(k)           # a solver integer concretises here (fork over its feasible values)
            if k < 0: k += self._dimlen(i)
            out.append(k)
        return tuple(out)
    def _default(self):
        if self.dtype is str: return ''
        if isinstance(self.datatype, VLType): return np.array([], dtype=self.datatype.dtype)
        return self.datatype.type(_FILLS[self.datatype])
    def _coerce(self, v):
        if type(v).__name__ in ('SymInt', 'SymFloat'): return v          # solver symbols are stored as they are
        if self.dtype is str: return str(v)
        if isinstance(self.datatype, VLType): return np.asarray(v, dtype=self.datatype.dtype).copy()
        return self.datatype.type(v)
    def __setitem__(self, key, val):
        if isinstance(key, slice):
            assert key == slice(None) and len(self.dimensions) == 1
            self._cells.clear()
            for i, v in enumerate(val): self[i] = v
            return
        if isinstance(key, tuple) and key and isinstance(key[-1], slice) and key[-1] == slice(None) and len(key) == len(self.dimensions):
            # row assignment var[i, ..., :] = sequence  (last dimension is fixed-size)
            vals = list(val)
            n = self._dimlen(len(key) - 1)
            if len(vals) != n:
                raise ValueError(f'shape mismatch: cannot assign {len(vals)} values to a row of {n}')
            for j, v in enumerate(vals):
                self[tuple(key[:-1]) + (j,)] = v
            return
        key = self._norm(key)
        assert len(key) == len(self.dimensions), (key, self.dimensions)
        for i, k in enumerate(key):
            dim = self._root['dims'][self.dimensions[i]]
            if dim.isunlimited(): self._root['ulen'][dim.name] = max(self._root['ulen'].get(dim.name, 0), k + 1)
            elif not (0 <= k < len(dim)): raise RuntimeError('NetCDF: Index exceeds dimension bound')
        self._cells[key] = self._coerce(val)
    def __getitem__(self, key):
        if isinstance(key, slice):
            assert key == slice(None) and len(self.dimensions) == 1
            n = self._dimlen(0)
            vals = [self._cells.get((i,), self._default()) for i in range(n)]
            if any(type(v).__name__ in ('SymInt', 'SymFloat') for v in vals):
                out = np.empty(n, dtype=object)
                for i, v in enumerate(vals): out[i] = v
                return out
            data = np.array(vals, dtype=self.datatype if not isinstance(self.datatype, VLType) else object)
            if self._automask and not isinstance(self.datatype, VLType):
                return np.ma.masked_array(data, mask=[(i,) not in self._cells for i in range(n)], fill_value=_FILLS[self.datatype])
            return data
        key = self._norm(key)
        for i, k in enumerate(key):
            if not (0 <= k < self._dimlen(i)): raise IndexError('index exceeds dimension bounds')
        if len(key) < len(self.dimensions):   # partial index -> array over remaining dims (1 more only)
            assert len(key) == len(self.dimensions) - 1
            n = self._dimlen(len(key))
            return np.array([self._cells.get(key + (j,), self._default()) for j in range(n)], dtype=object if isinstance(self.datatype, VLType) else self.datatype)
        return self._cells.get(key, self._default())
class Group(_Attrs):
    def __init__(self, root, name, parent=None):
        d = object.__setattr__
        d(self, '_root', root); d(self, 'name', name); d(self, '_attrs', {}); d(self, 'groups', {}); d(self, 'variables', {}); d(self, 'parent', parent)
    @property
    def dimensions(self): return self._root['dims']
    def __setattr__(self, k, v):
        if k in ('_root','name','_attrs','groups','variables','parent','_closed','_mode','_path'): object.__setattr__(self, k, v)
        else: self._setattr(k, v)
    def __getattr__(self, k):
        try: return self._getattr(k)
        except KeyError: raise AttributeError(k)
    def createGroup(self, name):
        g = Group(self._root, name, self); self.groups[name] = g; return g
    def createDimension(self, name, size=None):
        dm = Dimension(self._root, name, size); self._root['dims'][name] = dm; return dm
    def createVariable(self, name, datatype, dimensions=()):
        v = Variable(self._root, self, name, datatype, dimensions); self.variables[name] = v; return v
    def createVLType(self, dtype, name):
        if dtype is str or not np.issubdtype(np.dtype(dtype), np.number): raise TypeError('unsupported VL base type')
        return VLType(dtype, name)
class Dataset(Group):
    def __new__(cls, path, mode='r', format=None, keepweakref=False):
        path = Path(path)
        if mode == 'w':
            tok = uuid.uuid4().hex; path.write_text('FAKENC ' + tok)
            root = {'dims': {}, 'ulen': {}}
            self = object.__new__(cls); Group.__init__(self, root, '/'); root['rootgroup'] = self; _STATE[tok] = root
        else:
            txt = path.read_text()
            if not txt.startswith('FAKENC '): raise OSError('NetCDF: Unknown file format')
            self = _STATE[txt.split()[1]]['rootgroup']
        object.__setattr__(self, '_mode', mode); object.__setattr__(self, '_path', path); object.__setattr__(self, '_closed', False)
        return self
    def __init__(self, *a, **k): pass
    def sync(self): pass
    def close(self): object.__setattr__(self, '_closed', True)
    def isopen(self): return not self._closed
