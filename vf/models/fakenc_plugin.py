"""pytest plugin: substitutes the netCDF4 model for the real library in the two AEIC modules that use it."""
import sys
sys.path.insert(0, '/verif')
from vf.models import fakenc


def pytest_configure(config):
    import AEIC.trajectories.store as ST
    import AEIC.storage.field_sets as FS
    ST.nc4 = fakenc
    FS.nc4 = fakenc
