"""Runs the repository's own storage tests with the netCDF4 model substituted; returns (ok, summary)."""
import subprocess
import sys
from pathlib import Path


def run():
    import AEIC
    repo = Path(AEIC.__file__).resolve().parents[2]
    cmd = [sys.executable, '-m', 'pytest', '-q', '-p', 'no:cacheprovider', '-p', 'vf.models.fakenc_plugin',
           'tests/test_storage.py', 'tests/test_trajectories.py', 'tests/test_emissions_storage.py', '-x', '--timeout=600']
    r = subprocess.run(cmd, cwd=repo, capture_output=True, text=True, env={**__import__('os').environ, 'PYTHONPATH': '/verif'})
    tail = (r.stdout.strip().splitlines() or [''])[-1]
    return r.returncode == 0, tail


if __name__ == '__main__':
    print(run())
