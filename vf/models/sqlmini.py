"""Mini-SQL: parses the WHERE text the mission query classes generate and interprets it over one symbolic joined row.

Grammar (what filter.py / query.py can emit; anything else is reported as unsupported):
  expr   := term (OR term)*            term := factor (AND factor)*
  factor := '(' expr ')' | comparison
  comparison := value op value | value IN subselect | value BETWEEN value AND value
  value  := column | '?' | number | '(' arith ')' | arith with - % / + | '(SELECT MIN(day) FROM schedules)' | 'random()'
Sub-selects are recognised by shape (airports by iata_code / country / continent, airport_location_idx box).
Placeholders are consumed left to right from the parameter list."""
from __future__ import annotations

import re

import z3


class Unsupported(Exception):
    pass


TOKEN = re.compile(r"\s*(>=|<=|<>|!=|=|<|>|\(|\)|,|\?|%|\+|-|/|\*|[A-Za-z_][A-Za-z_0-9\.]*|\d+\.\d+|\d+)")


def tokenize(s):
    out, i = [], 0
    while i < len(s):
        m = TOKEN.match(s, i)
        if not m:
            if s[i:].strip() == '':
                break
            raise Unsupported(f'cannot tokenize at: {s[i:i + 30]!r}')
        out.append(m.group(1))
        i = m.end()
    return out


class Row:
    """symbolic joined row: schedule s, flight f, airports (functions of the airport id)"""

    def __init__(self, z=z3):
        I, R = z3.IntSort(), z3.RealSort()
        self.cols = {
            'f.distance': z3.Real('f_distance'), 'f.seat_capacity': z3.Int('f_seat_capacity'), 'f.service_type': z3.Int('f_service_type'),
            'f.aircraft_type': z3.Int('f_aircraft_type'), 'f.origin': z3.Int('f_origin'), 'f.destination': z3.Int('f_destination'),
            's.departure_timestamp': z3.Int('s_departure_timestamp'), 's.day': z3.Int('s_day'),
        }
        self.iata = z3.Function('iata', I, I)
        self.country = z3.Function('country', I, I)
        self.continent = z3.Function('continent_of_country', I, I)
        self.lat = z3.Function('lat', I, R)
        self.lon = z3.Function('lon', I, R)
        self.min_day = z3.Int('min_day_in_schedules')
        self.randoms = []

    def constraints(self):
        c = [self.cols['f.origin'] >= 1, self.cols['f.destination'] >= 1, self.cols['f.origin'] != self.cols['f.destination'], self.min_day <= self.cols['s.day']]
        for r in self.randoms:
            c += [r > 0, r < 1]
        return c


class Interp:
    def __init__(self, text, params, row):
        self.toks = tokenize(text)
        self.i = 0
        self.params = list(params)
        self.pi = 0
        self.row = row
        self.n_random = 0

    def peek(self, k=0):
        return self.toks[self.i + k] if self.i + k < len(self.toks) else None

    def eat(self, t=None):
        x = self.peek()
        if t is not None and (x is None or x.upper() != t.upper()):
            raise Unsupported(f'expected {t} got {x} at token {self.i}: {" ".join(self.toks[max(0, self.i - 5):self.i + 5])}')
        self.i += 1
        return x

    def param(self):
        if self.pi >= len(self.params):
            raise Unsupported('more placeholders than parameters')
        p = self.params[self.pi]
        self.pi += 1
        return p

    # --- boolean level
    def expr(self):
        t = self.term()
        while self.peek() and self.peek().upper() == 'OR':
            self.eat()
            t = z3.Or(t, self.term())
        return t

    def term(self):
        f = self.factor()
        while self.peek() and self.peek().upper() == 'AND':
            self.eat()
            f = z3.And(f, self.factor())
        return f

    def factor(self):
        if self.peek() == '(' and self._paren_is_boolean():
            self.eat('(')
            e = self.expr()
            self.eat(')')
            return e
        return self.comparison()

    def _paren_is_boolean(self):
        # a parenthesis opens a boolean group if a comparison/IN keyword occurs at depth 1 before it closes
        depth, j = 0, self.i
        while j < len(self.toks):
            t = self.toks[j]
            if t == '(':
                depth += 1
            elif t == ')':
                depth -= 1
                if depth == 0:
                    return False
            elif depth == 1 and (t in ('>=', '<=', '=', '<', '>', '<>', '!=') or t.upper() in ('IN', 'BETWEEN', 'AND', 'OR')):
                return True
            j += 1
        return False

    def comparison(self):
        a = self.value()
        op = self.eat()
        if op.upper() == 'IN':
            return self.subselect(a)
        if op.upper() == 'BETWEEN':
            lo = self.value()
            self.eat('AND')
            hi = self.value()
            return z3.And(a >= lo, a <= hi)
        b = self.value()
        return {'>=': a >= b, '<=': a <= b, '<': a < b, '>': a > b, '=': a == b, '<>': a != b, '!=': a != b}[op]

    # --- arithmetic level
    def value(self):
        v = self.mul()
        while self.peek() in ('+', '-'):
            op = self.eat()
            w = self.mul()
            v = v + w if op == '+' else v - w
        return v

    def mul(self):
        v = self.atom()
        while self.peek() in ('%', '/', '*'):
            op = self.eat()
            w = self.atom()
            if op == '%':
                v = v % w
            elif op == '/':
                v = z3.ToReal(v) / w if z3.is_int(v) else v / w
            else:
                v = v * w
        return v

    def atom(self):
        t = self.peek()
        if t == '?':
            self.eat()
            return self.param()
        if t == '(':
            if self.peek(1) and self.peek(1).upper() == 'SELECT':
                txt = ' '.join(self.toks[self.i:self.i + 9]).upper()
                if txt.startswith('( SELECT MIN ( DAY ) FROM SCHEDULES )'):
                    self.i += 9
                    return self.row.min_day
                raise Unsupported('scalar sub-select: ' + txt)
            self.eat('(')
            v = self.value()
            self.eat(')')
            return v
        if t is not None and t.lower() == 'random':
            self.eat()
            self.eat('(')
            self.eat(')')
            # (random() + 2^63) / (2^64 - 1) is uniform in (0,1): modelled as a fresh value r with random() = r*(2^64-1) - 2^63
            r = z3.Real(f'random_{len(self.row.randoms)}')
            self.row.randoms.append(r)
            return r * z3.RealVal('18446744073709551615') - z3.RealVal('9223372036854775808')
        if t is not None and re.fullmatch(r'\d+\.\d+|\d+', t):
            self.eat()
            return z3.RealVal(t) if '.' in t or len(t) > 15 else z3.IntVal(int(t))
        if t in self.row.cols:
            self.eat()
            return self.row.cols[t]
        raise Unsupported(f'value {t!r}')

    # --- sub-selects by shape
    def subselect(self, x):
        self.eat('(')
        if self.peek().upper() != 'SELECT':
            # plain value list: IN (?, ?, ...)
            vals = [self.value()]
            while self.peek() == ',':
                self.eat()
                vals.append(self.value())
            self.eat(')')
            return z3.Or(*[x == v for v in vals])
        head = []
        while self.peek() is not None and self.peek().upper() != 'WHERE':
            head.append(self.eat())
        self.eat('WHERE')
        h = ' '.join(head).upper()
        if h == 'SELECT ID FROM AIRPORTS':
            col = self.eat().lower()
            self.eat('IN')
            if col == 'iata_code':
                r = self.subselect(self.row.iata(x))
            elif col == 'country':
                r = self.subselect_country(x)
            else:
                raise Unsupported('airports column ' + col)
            self.eat(')')
            return r
        if h == 'SELECT ID FROM AIRPORT_LOCATION_IDX':
            conds = []
            while True:
                col = self.eat().lower()
                op = self.eat()
                v = self.value()
                a = {'min_latitude': self.row.lat(x), 'max_latitude': self.row.lat(x), 'min_longitude': self.row.lon(x), 'max_longitude': self.row.lon(x)}.get(col)
                if a is None:
                    raise Unsupported('location column ' + col)
                conds.append({'>=': a >= v, '<=': a <= v, '<': a < v, '>': a > v}[op])
                if self.peek() and self.peek().upper() == 'AND':
                    self.eat()
                    continue
                break
            self.eat(')')
            return z3.And(*conds)
        raise Unsupported('sub-select ' + h)

    def subselect_country(self, x):
        # country IN (?, ...)  |  country IN (SELECT code FROM countries WHERE continent IN (?, ...))
        if self.peek() == '(' and self.peek(1) and self.peek(1).upper() == 'SELECT':
            self.eat('(')
            head = []
            while self.peek().upper() != 'WHERE':
                head.append(self.eat())
            self.eat('WHERE')
            if ' '.join(head).upper() != 'SELECT CODE FROM COUNTRIES':
                raise Unsupported('nested sub-select ' + ' '.join(head))
            col = self.eat().lower()
            if col != 'continent':
                raise Unsupported('countries column ' + col)
            self.eat('IN')
            r = self.subselect(self.row.continent(self.row.country(x)))
            self.eat(')')
            return r
        return self.subselect(self.row.country(x))


def where_of(sql):
    """(where text or '', rest) of a generated statement"""
    m = re.search(r'\sWHERE\s(.*?)(\sORDER BY\s|\sGROUP BY\s|$)', sql, flags=re.S)
    return (m.group(1) if m else ''), sql


def interpret_where(text, params, row):
    """returns (z3 Bool, number of parameters consumed)"""
    if not text.strip():
        return z3.BoolVal(True), 0
    it = Interp(text, params, row)
    e = it.expr()
    if it.i != len(it.toks):
        raise Unsupported('trailing tokens: ' + ' '.join(it.toks[it.i:it.i + 6]))
    return e, it.pi
