"""Entry point: python -m vf.run <ID>   (tier from VERIF_TIER, seed from VERIF_SEED)"""
import importlib
import os
import sys
import traceback

REGISTRY = {
    'C01': ('vf.checks.emis_check', lambda m: m.main('C01')),
    'C02': ('vf.checks.c02_check', lambda m: m.main()),
    'C03': ('vf.checks.c03_check', lambda m: m.main()),
    'C04': ('vf.checks.c0405_check', lambda m: m.main('C04')),
    'C05': ('vf.checks.c0405_check', lambda m: m.main('C05')),
    'C06': ('vf.checks.c06_check', lambda m: m.main()),
    'C07': ('vf.checks.c07_check', lambda m: m.main()),
    'C08': ('vf.checks.c08_check', lambda m: m.main()),
    'C09': ('vf.checks.c0910_check', lambda m: m.main('C09')),
    'C10': ('vf.checks.c0910_check', lambda m: m.main('C10')),
    'C11': ('vf.checks.emis_check', lambda m: m.main('C11')),
    'C12': ('vf.checks.c12_check', lambda m: m.main()),
    'C13': ('vf.checks.c13_check', lambda m: m.main()),
    'C14': ('vf.checks.c14_check', lambda m: m.main()),
    'C15': ('vf.checks.c15_check', lambda m: m.main()),
    'C16': ('vf.checks.c16_check', lambda m: m.main()),
    'C17': ('vf.checks.c17_check', lambda m: m.main()),
    'C18': ('vf.checks.c18_check', lambda m: m.main()),
    'C19': ('vf.checks.c19_check', lambda m: m.main()),
    'C20': ('vf.checks.c20_check', lambda m: m.main()),
}


def main():
    pid = sys.argv[1]
    if pid not in REGISTRY:
        print(f'INCONCLUSIVE property={pid} no check registered')
        return 2
    modname, fn = REGISTRY[pid]
    try:
        mod = importlib.import_module(modname)
        if os.environ.get('VERIF_REPLAY'):
            return mod.replay_file(pid, os.environ['VERIF_REPLAY'])
        return fn(mod)
    except SystemExit:
        raise
    except BaseException as e:  # harness error: never a VIOLATION
        traceback.print_exc()
        print(f'INCONCLUSIVE property={pid} harness error: {type(e).__name__}: {e}')
        return 2


if __name__ == '__main__':
    sys.exit(main())
