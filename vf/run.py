"""Entry point: python -m vf.run <ID>   (tier from VERIF_TIER, seed from VERIF_SEED)"""
import importlib
import os
import sys
import traceback

REGISTRY = {
    'C01': ('vf.checks.emis_check', lambda m: m.main('C01')),
    'C02': ('vf.checks.c02_check', lambda m: m.main()),
    'C03': ('vf.checks.c03_check', lambda m: m.main()),
    'C04': ('vf.checks.c0405_check', lambda m: m.main('C04')),
    'C05': ('vf.checks.c0405_check', lambda m: m.main('C05')),
    'C06': ('vf.checks.c06_check', lambda m: m.main()),
    'C07': ('vf.checks.c07_check', lambda m: m.main()),
    'C08': ('vf.checks.c08_check', lambda m: m.main()),
    'C09': ('vf.checks.c0910_check', lambda m: m.main('C09')),
    'C10': ('vf.checks.c0910_check', lambda m: m.main('C10')),
    'C11': ('vf.checks.emis_check', lambda m: m.main('C11')),
    'C12': ('vf.checks.c12_check', lambda m: m.main()),
    'C13': ('vf.checks.c13_check', lambda m: m.main()),
    'C14': ('vf.checks.c14_check', lambda m: m.main()),
    'C15': ('vf.checks.c15_check', lambda m: m.main()),
    'C16': ('vf.checks.c16_check', lambda m: m.main()),
    'C17': ('vf.checks.c17_check', lambda m: m.main()),
    'C18': ('vf.checks.c18_check', lambda m: m.main()),
    'C19': ('vf.checks.c19_check', lambda m: m.main()),
    'C20': ('vf.checks.c20_check', lambda m: m.main()),
}


def replay_file(pid, mod, fn, path):
    """--replay FILE: re-establish a recorded counterexample on the current tree.

    Where the recorded inputs are self-contained (C04/C05: values + configuration) the real code is re-run on exactly
    those inputs.  Otherwise the check itself is re-run (the encoding is regenerated from the current source, the
    solver finds its counterexamples again and each is replayed on the real code) and the recorded violation counts
    as reproduced iff a violation with the same obligation and tags is reported again.
    exit 1 = reproduced, 0 = not reproduced on this tree, 2 = could not be decided."""
    import hashlib
    import json
    from pathlib import Path
    from vf import common
    rec = json.loads(Path(path).read_text())
    if pid in ('C04', 'C05') and isinstance(rec.get('inputs'), dict) and 'cfg' in rec['inputs']:
        from vf.harness import c0405 as H
        oid = rec['obligation']
        inv = {w: k for k, w in H.ALSO_C04.items()}
        ok, detail = H.replay(dict(obligation=inv.get(oid, oid), values=rec['inputs']['values'], cfg=rec['inputs']['cfg']))
        if ok:
            print(f'VIOLATION property={pid} replay={path}')
            print(f'  obligation={oid} :: {detail}')
            return 1
        print(f'not reproduced on the current tree: property={pid} obligation={oid} :: {detail}')
        return 0
    h = hashlib.sha1(json.dumps([rec['obligation'], rec['tags']], sort_keys=True, default=str).encode()).hexdigest()[:12]
    target = common.REPLAYS / pid / f'{h}.json'
    before = target.stat().st_mtime_ns if target.exists() else None
    rc = fn(mod)
    after = target.stat().st_mtime_ns if target.exists() else None
    if rc == 1 and after is not None and after != before:
        print(f'reproduced: property={pid} obligation={rec["obligation"]} (see the VIOLATION line above)')
        return 1
    if rc == 2:
        print(f'INCONCLUSIVE property={pid} replay of {path}: the check was inconclusive on this tree')
        return 2
    print(f'not reproduced on the current tree: property={pid} obligation={rec["obligation"]} tags={rec["tags"]}')
    return 0 if rc == 0 else rc


def main():
    pid = sys.argv[1]
    if pid not in REGISTRY:
        print(f'INCONCLUSIVE property={pid} no check registered')
        return 2
    modname, fn = REGISTRY[pid]
    try:
        mod = importlib.import_module(modname)
        if os.environ.get('VERIF_REPLAY'):
            return replay_file(pid, mod, fn, os.environ['VERIF_REPLAY'])
        return fn(mod)
    except SystemExit:
        raise
    except BaseException as e:  # harness error: never a VIOLATION
        traceback.print_exc()
        print(f'INCONCLUSIVE property={pid} harness error: {type(e).__name__}: {e}')
        return 2


if __name__ == '__main__':
    sys.exit(main())
