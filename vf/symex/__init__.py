from .core import *  # noqa
from .core import _numval, _isnan, _isinf  # noqa
from . import ufs, symarr  # noqa
from .symarr import SymArr, obj, wrap, symvec, np as symnp, has_sym, tobool  # noqa
