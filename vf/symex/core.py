"""E1 `symex` core: proxy-based symbolic execution of real Python functions.

Values are z3 terms wrapped in SymFloat / SymInt / SymBool.  `SymBool.__bool__`
asks the current Explorer which way to go (DFS with decision replay and
feasibility queries).  Nothing here knows about AEIC.

Arithmetic is over exact reals (z3 `Real`), concrete doubles are lifted to
their exact rational value.  Division/log/sqrt do not fork: they record a
definedness obligation on the path.
"""
from __future__ import annotations

import math
import os
import time
from fractions import Fraction

import numpy as _np
import z3


class PathAbort(BaseException):
    """Infeasible path / exploration cut. BaseException so that `except
    Exception` in the code under test cannot swallow it."""


class Unmodelled(BaseException):
    """The code under test reached an API the engine does not model."""


_CUR = None


def cur() -> 'Explorer':
    if _CUR is None:
        raise RuntimeError('no active Explorer')
    return _CUR


# --------------------------------------------------------------------------
# lifting


def fr_to_z3(fr: Fraction):
    return z3.RealVal(f'{fr.numerator}/{fr.denominator}') if fr.denominator != 1 else z3.RealVal(fr.numerator)


def lift(x):
    """The only way a concrete number enters a term (exact rational value)."""
    if isinstance(x, SymFloat):
        return x.t
    if isinstance(x, SymInt):
        return z3.ToReal(x.t)
    if isinstance(x, (bool, _np.bool_)):
        return z3.RealVal(1 if x else 0)
    if isinstance(x, (int, _np.integer)):
        return z3.RealVal(int(x))
    if isinstance(x, (float, _np.floating)):
        if math.isnan(x) or math.isinf(x):
            raise ValueError('non-finite concrete value in symbolic arithmetic')
        return fr_to_z3(Fraction(float(x)))
    if isinstance(x, Fraction):
        return fr_to_z3(x)
    if isinstance(x, _np.ndarray) and x.ndim == 0:
        return lift(x[()])
    raise TypeError(f'cannot lift {type(x).__name__}')


def liftb(x):
    if isinstance(x, SymBool):
        return x.t
    if isinstance(x, (bool, _np.bool_)):
        return z3.BoolVal(bool(x))
    raise TypeError(f'cannot lift {type(x).__name__} to Bool')


def is_sym(x):
    return isinstance(x, (SymFloat, SymInt, SymBool))


def _numval(t):
    """Fraction value of a numeral term, else None."""
    if z3.is_rational_value(t):
        return Fraction(t.numerator_as_long(), t.denominator_as_long())
    if z3.is_int_value(t):
        return Fraction(t.as_long())
    return None


def zabs(t):
    return z3.If(t >= 0, t, -t)


def _isnan(o):
    return isinstance(o, (float, _np.floating)) and math.isnan(o)


def _isinf(o):
    return isinstance(o, (float, _np.floating)) and math.isinf(o)


# --------------------------------------------------------------------------
# Explorer


class Path:
    __slots__ = ('pc', 'result', 'exc', 'trace', 'defined', 'defs', 'notes', 'tb', 'inputs')

    def __init__(self, pc, result, exc, trace, defined, defs, notes, tb=None):
        self.pc, self.result, self.exc, self.trace = pc, result, exc, trace
        self.defined, self.defs, self.notes, self.tb = defined, defs, notes, tb


class Explorer:
    def __init__(self, feas_timeout_ms=1500, purify=False, max_paths=200000, deadline=None, name=''):
        self.name = name
        self.feas_timeout_ms = feas_timeout_ms
        self.purify = purify
        self.max_paths = max_paths
        self.deadline = deadline
        self.solver = z3.Solver()
        self.solver.set('timeout', feas_timeout_ms)
        self.stats = dict(paths=0, aborted=0, feas_queries=0, feas_unknown=0, forks=0, forks_concretising=0,
                          obl_unsat=0, obl_sat=0, obl_unknown=0, solver_s=0.0, refinements=0)
        self.truncated = False
        self._reset_path()
        self.pending = []
        self.replay = []

    # ---- per-path state
    def _reset_path(self):
        self.trace = []
        self.pc = []
        self.defined = []      # (z3 bool, description) that must hold for the computation to be defined
        self.pur = {}          # purification memo
        self.defs = []         # (fresh var, defining term) for purified products/quotients
        self.ufapps = {}       # name -> list[(canonical key, arg term(s), value var)]
        self.nvars = 0
        self.notes = {}        # free-form per-path data for harnesses (e.g. chosen config)
        self.inputs = {}       # input name -> z3 var (harness-level symbols; used to extract replay values)
        self.decided = {}
        self.solver.reset()
        self.solver.set('timeout', self.feas_timeout_ms)

    concrete = False

    def fresh(self, name, sort='real'):
        self.nvars += 1
        n = f'{name}!{self.nvars}'
        return z3.Real(n) if sort == 'real' else z3.Int(n) if sort == 'int' else z3.Bool(n)

    def input(self, name, sort='real'):
        """harness-level input symbol with a stable name (no counter)."""
        if name in self.inputs:
            raise RuntimeError(f'duplicate input name {name}')
        v = z3.Real(name) if sort == 'real' else z3.Int(name) if sort == 'int' else z3.Bool(name)
        self.inputs[name] = v
        return v

    def model_inputs(self, model):
        return {k: mval(model, v) for k, v in self.inputs.items()}

    def assume(self, cond):
        if isinstance(cond, SymBool):
            cond = cond.t
        if isinstance(cond, (bool, _np.bool_)):
            if not cond:
                raise PathAbort()
            return
        self.pc.append(cond)
        self.solver.add(cond)

    def require_defined(self, cond, what):
        if z3.is_true(cond):
            return
        import sys as _sys
        f = _sys._getframe(1)
        where = ''
        while f is not None:
            fn = f.f_code.co_filename
            if '/vf/symex/' not in fn and 'numpy' not in fn:
                where = f' at {fn.split("/")[-1]}:{f.f_lineno}'
                break
            f = f.f_back
        self.defined.append((cond, what + where))

    def feasible(self, extra):
        self.stats['feas_queries'] += 1
        t0 = time.time()
        self.solver.push()
        self.solver.add(extra)
        r = self.solver.check()
        self.solver.pop()
        self.stats['solver_s'] += time.time() - t0
        if r == z3.unknown:
            self.stats['feas_unknown'] += 1
        return r != z3.unsat

    def branch(self, cond, concretising=False, both_feasible=False):
        if isinstance(cond, SymBool):
            cond = cond.t
        if isinstance(cond, (bool, _np.bool_)):
            return bool(cond)
        cond = z3.simplify(cond)
        if z3.is_true(cond):
            return True
        if z3.is_false(cond):
            return False
        cid = cond.get_id()
        if cid in self.decided:          # the same condition was already decided on this path
            return self.decided[cid][0]
        i = len(self.trace)
        if i < len(self.replay):
            d = self.replay[i]
        else:
            if self.deadline and time.time() > self.deadline:
                self.truncated = True
                raise PathAbort()
            t_ok = both_feasible or self.feasible(cond)
            f_ok = both_feasible or self.feasible(z3.Not(cond))
            if t_ok and f_ok:
                self.pending.append(self.trace + [False])
                self.stats['forks'] += 1
                if concretising:
                    self.stats['forks_concretising'] += 1
                d = True
            elif t_ok:
                d = True
            elif f_ok:
                d = False
            else:
                raise PathAbort()
        self.trace.append(d)
        c = cond if d else z3.Not(cond)
        self.pc.append(c)
        self.solver.add(c)
        self.decided[cid] = (d, cond)     # keeps cond alive so that its id stays unique
        return d

    def explore(self, fn, prefixes=None):
        """Run fn(ex) once per feasible path; yields Path objects."""
        global _CUR
        self.pending = [list(p) for p in (prefixes or [[]])]
        n = 0
        while self.pending:
            if n >= self.max_paths or (self.deadline and time.time() > self.deadline):
                self.truncated = True
                break
            self.replay = self.pending.pop()
            self._reset_path()
            prev, _CUR = _CUR, self
            tb = None
            try:
                res = fn(self)
                exc = None
            except PathAbort:
                self.stats['aborted'] += 1
                _CUR = prev
                continue
            except Unmodelled:
                _CUR = prev
                raise
            except Exception as e:  # exceptions of the code under test are outcomes
                res, exc = None, e
                import traceback
                tb = traceback.format_exc()
            n += 1
            self.stats['paths'] += 1
            p = Path(list(self.pc), res, exc, list(self.trace), list(self.defined), list(self.defs), dict(self.notes), tb)
            p.inputs = dict(self.inputs)
            try:
                yield p
            finally:
                _CUR = prev

    # ---- obligations
    def check(self, extra, pc=None, timeout_ms=10000, defs=None, use_defs='on_sat'):
        """Satisfiability of pc ∧ extra.  Returns (result_str, model|None).
        With purification, `sat` is refined with the defining equations."""
        pc = self.pc if pc is None else pc
        defs = self.defs if defs is None else defs
        t0 = time.time()
        try:
            s = z3.Solver()
            s.set('timeout', timeout_ms)
            s.add(*pc)
            s.add(extra)
            r = s.check()
            if r == z3.sat and defs and use_defs == 'on_sat':
                self.stats['refinements'] += 1
                s2 = z3.Solver()
                s2.set('timeout', timeout_ms)
                s2.add(*pc)
                s2.add(extra)
                for v, d in defs:
                    s2.add(v == d)
                r = s2.check()
                s = s2
            m = s.model() if r == z3.sat else None
            return str(r), m
        finally:
            self.stats['solver_s'] += time.time() - t0

    # ---- cone-of-influence slicing + memoisation (sound: variable-disjoint conjuncts of a feasible
    #      path condition cannot change the satisfiability of the rest)
    def _vars(self, t):
        c = self.__dict__.setdefault('_varcache', {})
        i = t.get_id()
        if i in c:
            return c[i][1]
        out = set()
        stack = [t]
        seen = set()
        while stack:
            e = stack.pop()
            ei = e.get_id()
            if ei in seen:
                continue
            seen.add(ei)
            if z3.is_const(e):
                if e.decl().kind() == z3.Z3_OP_UNINTERPRETED:
                    out.add(ei)
            else:
                stack.extend(e.children())
        fs = frozenset(out)
        c[i] = (t, fs)          # keep t alive so that its id stays unique
        return fs

    def slice_pc(self, pc, term):
        need = set(self._vars(term))
        rest = [(c, self._vars(c)) for c in pc]
        sel = []
        changed = True
        while changed:
            changed = False
            nxt = []
            for c, vs in rest:
                if vs & need:
                    sel.append(c)
                    need |= vs
                    changed = True
                else:
                    nxt.append((c, vs))
            rest = nxt
        return sel

    def prove_sliced(self, term, pc=None, timeout_ms=10000, defs=None, refine_timeout_ms=8000):
        """prove() on the cone of influence of `term`, memoised per explorer.  With purified products (`defs`), the
        first attempt uses the sign abstraction only; a `sat` is refined with the defining equations in the cone."""
        if isinstance(term, SymBool):
            term = term.t
        if isinstance(term, (bool, _np.bool_)):
            return self.prove(term, pc=pc, timeout_ms=timeout_ms)
        pc = self.pc if pc is None else pc
        defs = defs or []
        def_eqs = [v == d for v, d in defs]
        sel_all = self.slice_pc(list(pc) + def_eqs, term)
        ids_defs = {e.get_id() for e in def_eqs}
        sel = [c for c in sel_all if c.get_id() not in ids_defs]
        sel_defs = [c for c in sel_all if c.get_id() in ids_defs]
        memo = self.__dict__.setdefault('_provecache', {})
        key = (frozenset(c.get_id() for c in sel_all), term.get_id())
        if key in memo:
            r, m = memo[key][0]
            self.stats['obl_' + r] += 1
            self.stats['obl_cache_hits'] = self.stats.get('obl_cache_hits', 0) + 1
            return r, m
        r, m = self.prove(term, pc=sel, timeout_ms=timeout_ms, defs=[])
        if r == 'sat' and sel_defs:
            self.stats['refinements'] += 1
            self.stats['obl_sat'] -= 1
            r2, m2 = self.prove(term, pc=sel + sel_defs, timeout_ms=refine_timeout_ms, defs=[])
            if r2 == 'unknown':
                # keep the abstract counterexample: its INPUT values are replayed on the real code, which recomputes
                # every product; a model that does not reproduce is reported as inconclusive, never as a violation
                self.stats['obl_unknown'] -= 1
                self.stats['obl_sat'] += 1
                self.stats['unrefined_sat'] = self.stats.get('unrefined_sat', 0) + 1
                r2, m2 = 'sat', m
                r3, m3 = self.check(z3.Not(term), pc=list(pc), timeout_ms=timeout_ms, defs=[])
                return 'sat', (m3 if r3 == 'sat' else m)
            r, m = r2, m2
        if r == 'sat':
            # the sliced model does not constrain the other inputs of the path: complete it on the full path condition
            r2, m2 = self.check(z3.Not(term), pc=list(pc) + sel_defs, timeout_ms=timeout_ms, defs=[])
            if r2 == 'sat':
                return r, m2
            return r, m
        memo[key] = ((r, m), sel_all, term)     # keep the terms alive (ids stay unique)
        return r, m

    # ---- genuine counterexamples from an abstract one: linearising partial concretisation
    def genuine_model(self, neg, pc=None, defs=None, timeout_ms=10000, rounds=3, prefer=None):
        """A model of pc AND neg AND the defining equations of the purified products, or None.

        Variables are fixed one at a time at the value the current model gives them until every product/quotient in
        the defining equations has at most one non-constant factor; equations that have become linear are enforced
        from then on, so each fix is consistent with what is already determined.  Exact square roots (y*y == t in
        the path condition) are computed numerically (40 digits) once t is a numeral, so the result satisfies those
        equations to 1e-30 only: it is a concrete INPUT to be replayed on the real code, never a verdict."""
        from decimal import Decimal, getcontext
        pc = list(self.pc if pc is None else pc)
        defs = list(self.defs if defs is None else defs)
        t0 = time.time()
        try:
            roots = []
            lin_pc = []
            for c in pc:
                sq = _square_def(c)
                if sq is not None:
                    roots.append(sq)
                else:
                    lin_pc.append(c)
            eqs = [v == d for v, d in defs]
            defmap = {v.get_id(): d for v, d in defs}
            feeds = set()
            stack = [t for _, t in roots]
            while stack:
                e = stack.pop()
                for vid in self._vars(e):
                    if vid not in feeds:
                        feeds.add(vid)
                        if vid in defmap:
                            stack.append(defmap[vid])
            for _round in range(rounds):
                fixed = {}
                pending = list(roots)
                dead = False
                for _it in range(600):
                    sub = [(k, val) for k, val in fixed.values()]
                    cur_eqs = [z3.simplify(z3.substitute(e, *sub)) for e in eqs] if sub else eqs
                    # square roots whose argument has become a numeral
                    progressed = False
                    still = []
                    for y, t in pending:
                        tv = z3.simplify(z3.substitute(t, *sub)) if sub else t
                        if z3.is_rational_value(tv):
                            fr = Fraction(tv.numerator_as_long(), tv.denominator_as_long())
                            if fr < 0:
                                dead = True
                                break
                            getcontext().prec = 45
                            rt = (Decimal(fr.numerator) / Decimal(fr.denominator)).sqrt()
                            fixed[y.get_id()] = (y, z3.RealVal(str(rt)))
                            progressed = True
                        else:
                            still.append((y, t))
                    if dead:
                        break
                    pending = still
                    if progressed:
                        continue
                    nl = _nonlinear_vars(cur_eqs)
                    linear_now = [e for e in cur_eqs if not _nonlinear_vars([e])]
                    s = z3.Solver()
                    s.set('timeout', timeout_ms)
                    s.add(*lin_pc)
                    s.add(neg)
                    s.add(*linear_now)                     # equations that are already linear are enforced from here on
                    for var, val in fixed.values():
                        s.add(var == val)
                    r = s.check()
                    self.stats['genuine_attempts'] = self.stats.get('genuine_attempts', 0) + 1
                    if r != z3.sat:
                        dead = True
                        if os.environ.get('VERIF_DEBUG_GM'):
                            print(f'  [gm] round {_round} dead after {len(fixed)} fixes ({r}); last fixed {[str(v[0]) + "=" + str(v[1])[:12] for v in list(fixed.values())[-3:]]}; pending roots {len(pending)}', flush=True)
                        break
                    m = s.model()
                    cand = None
                    if nl:
                        ranked = sorted(nl.values(), key=lambda kv: (-(kv[1] + (1000 if kv[0].get_id() in feeds else 0) + (500 if prefer and prefer(str(kv[0])) else 0)), str(kv[0])))
                        cand = ranked[min(_round, len(ranked) - 1) if _it == 0 else 0][0]
                    elif pending:
                        # remaining (linear) variables under a square root
                        for y, t in pending:
                            tv = z3.simplify(z3.substitute(t, *sub)) if sub else t
                            for e in _consts_of(tv):
                                if e.get_id() not in fixed:
                                    cand = e
                                    break
                            if cand is not None:
                                break
                    if cand is None:
                        self.stats['genuine_models'] = self.stats.get('genuine_models', 0) + 1
                        return m
                    val = m.eval(cand, model_completion=True)
                    if z3.is_algebraic_value(val):
                        val = val.approx(20)
                    fixed[cand.get_id()] = (cand, val)
            return None
        finally:
            self.stats['solver_s'] += time.time() - t0

    def prove(self, term, pc=None, timeout_ms=10000, defs=None):
        """Is `term` valid under the path condition? -> ('unsat'=holds | 'sat' | 'unknown', model)"""
        if isinstance(term, SymBool):
            term = term.t
        if isinstance(term, (bool, _np.bool_)):
            if term:
                self.stats['obl_unsat'] += 1
                return 'unsat', None
            term = z3.BoolVal(False)
        r, m = self.check(z3.Not(term), pc=pc, timeout_ms=timeout_ms, defs=defs)
        self.stats['obl_' + r] += 1
        return r, m


def _square_def(c):
    """(y, t) if the conjunct is  y*y == t  (exact square root, see ufs.sqrt)"""
    if z3.is_eq(c):
        a, b = c.children()
        for l, r in ((a, b), (b, a)):
            if z3.is_app(l) and l.decl().kind() == z3.Z3_OP_MUL and len(l.children()) == 2:
                p, q = l.children()
                if z3.is_const(p) and p.decl().kind() == z3.Z3_OP_UNINTERPRETED and p.eq(q):
                    return p, r
            if z3.is_app(l) and l.decl().kind() == z3.Z3_OP_POWER and len(l.children()) == 2:
                p, q = l.children()
                if z3.is_const(p) and p.decl().kind() == z3.Z3_OP_UNINTERPRETED and z3.is_rational_value(q) and q.numerator_as_long() == 2 and q.denominator_as_long() == 1:
                    return p, r
    return None


def _consts_of(e):
    out, seen, stack = [], set(), [e]
    while stack:
        x = stack.pop()
        if x.get_id() in seen:
            continue
        seen.add(x.get_id())
        if z3.is_const(x):
            if x.decl().kind() == z3.Z3_OP_UNINTERPRETED:
                out.append(x)
        else:
            stack.extend(x.children())
    return out


def _nonlinear_vars(terms):
    """uninterpreted real/int constants occurring in a product with another non-constant factor or in a divisor:
    id -> (const, number of such nodes)"""
    out = {}
    seen = set()

    def consts(e, acc, memo):
        i = e.get_id()
        if i in memo:
            acc |= memo[i]
            return
        mine = set()
        if z3.is_const(e):
            if e.decl().kind() == z3.Z3_OP_UNINTERPRETED:
                mine.add(e)
        else:
            for c in e.children():
                consts(c, mine, memo)
        memo[i] = mine
        acc |= mine
    memo = {}
    stack = list(terms)
    while stack:
        e = stack.pop()
        i = e.get_id()
        if i in seen:
            continue
        seen.add(i)
        if z3.is_app(e):
            k = e.decl().kind()
            ch = e.children()
            if k == z3.Z3_OP_MUL:
                sets = []
                for c in ch:
                    a = set()
                    consts(c, a, memo)
                    if a:
                        sets.append(a)
                if len(sets) >= 2:
                    for a in sets:
                        for v in a:
                            o = out.setdefault(v.get_id(), [v, 0])
                            o[1] += 1
            elif k in (z3.Z3_OP_DIV, z3.Z3_OP_IDIV, z3.Z3_OP_MOD, z3.Z3_OP_POWER) and len(ch) == 2:
                a = set()
                consts(ch[1], a, memo)
                for v in a:
                    o = out.setdefault(v.get_id(), [v, 0])
                    o[1] += 1
            stack.extend(ch)
    return {k: (v[0], v[1]) for k, v in out.items()}


# --------------------------------------------------------------------------
# SymBool


class SymBool:
    __array_ufunc__ = None
    __slots__ = ('t',)

    def __init__(self, t):
        self.t = t

    def __bool__(self):
        return cur().branch(self.t)

    def _b(self, o, f):
        if isinstance(o, _np.ndarray):
            return _ew(lambda x: self._b(x, f), o)
        try:
            return SymBool(f(self.t, liftb(o)))
        except TypeError:
            return NotImplemented

    def __and__(self, o): return self._b(o, z3.And)
    def __rand__(self, o): return self._b(o, z3.And)
    def __or__(self, o): return self._b(o, z3.Or)
    def __ror__(self, o): return self._b(o, z3.Or)
    def __xor__(self, o): return self._b(o, z3.Xor)
    def __rxor__(self, o): return self._b(o, z3.Xor)
    def __invert__(self): return SymBool(z3.Not(self.t))
    def __eq__(self, o): return self._b(o, lambda a, b: a == b)
    def __ne__(self, o): return self._b(o, lambda a, b: a != b)
    __hash__ = None

    def __repr__(self):
        return f'SymBool({self.t})'


def sym_not(x):
    if isinstance(x, SymBool):
        return SymBool(z3.Not(x.t))
    return not x


def sym_and(*xs):
    if any(isinstance(x, SymBool) for x in xs):
        return SymBool(z3.And(*[liftb(x) for x in xs]))
    return all(xs)


def sym_or(*xs):
    if any(isinstance(x, SymBool) for x in xs):
        return SymBool(z3.Or(*[liftb(x) for x in xs]))
    return any(xs)


def ite(c, a, b):
    """If-then-else on values (no fork when c is symbolic, unless the harness asks for forks with
    notes['ite_forks'] -- used where an If-term would hide the structure an axiom needs)."""
    if isinstance(c, SymBool) and _CUR is not None and not _CUR.concrete and _CUR.notes.get('ite_forks'):
        return a if bool(c) else b
    if isinstance(c, SymBool):
        if isinstance(a, (SymBool, bool, _np.bool_)) and isinstance(b, (SymBool, bool, _np.bool_)):
            return SymBool(z3.If(c.t, liftb(a), liftb(b)))
        if _isnan(a) or _isnan(b) or _isinf(a) or _isinf(b) or not _liftable(a) or not _liftable(b):
            return a if bool(c) else b      # structural value: fork
        return SymFloat(z3.If(c.t, lift(a), lift(b)))
    return a if c else b


def _liftable(x):
    return isinstance(x, (SymFloat, SymInt, int, float, _np.integer, _np.floating, Fraction)) and not isinstance(x, (bool, _np.bool_))


# --------------------------------------------------------------------------
# SymFloat


def _ew(f, arr):
    """apply f elementwise over an ndarray operand, result is a SymArr (object)."""
    a = arr.view(_np.ndarray) if isinstance(arr, _np.ndarray) else _np.asarray(arr, dtype=object)
    out = _np.empty(a.shape, dtype=object)
    for idx in _np.ndindex(a.shape):
        out[idx] = f(a[idx])
    from . import symarr
    return symarr.wrap(out)


def sign_axioms(p, a, b, div=False):
    ax = [z3.Implies(z3.And(a > 0, b > 0), p > 0), z3.Implies(z3.And(a < 0, b < 0), p > 0),
          z3.Implies(z3.And(a > 0, b < 0), p < 0), z3.Implies(z3.And(a < 0, b > 0), p < 0),
          z3.Implies(a == 0, p == 0)]
    if not div:
        ax.append(z3.Implies(b == 0, p == 0))
    return ax


def _mul_terms(a, b):
    va, vb = _numval(a), _numval(b)
    if va is not None and vb is not None:
        return fr_to_z3(va * vb)
    if va is not None:
        return fr_to_z3(Fraction(0)) if va == 0 else (b if va == 1 else a * b)
    if vb is not None:
        return fr_to_z3(Fraction(0)) if vb == 0 else (a if vb == 1 else a * b)
    ex = cur()
    if not ex.purify:
        return a * b
    ia, ib = a.get_id(), b.get_id()
    key = ('m', min(ia, ib), max(ia, ib))
    if key not in ex.pur:
        p = ex.fresh('prod')
        ex.pur[key] = (p, a, b)     # keep a, b alive (ids stay unique)
        for c in sign_axioms(p, a, b):
            ex.assume(c)
        if ia == ib:
            ex.assume(p >= 0)
        ex.defs.append((p, a * b))
    return ex.pur[key][0]


def _div_terms(a, b, what='division'):
    vb = _numval(b)
    if vb is not None:
        if vb == 0:
            raise _DivByConcreteZero()
        va = _numval(a)
        if va is not None:
            return fr_to_z3(va / vb)
        return a / b if vb != 1 else a
    ex = cur()
    ex.require_defined(b != 0, f'{what}: divisor != 0')
    if not ex.purify:
        return a / b
    key = ('d', a.get_id(), b.get_id())
    if key not in ex.pur:
        q = ex.fresh('quot')
        ex.pur[key] = (q, a, b)
        for c in sign_axioms(q, a, b, div=True):
            ex.assume(c)
        ex.defs.append((q, a / b))
    return ex.pur[key][0]


def _add_terms(a, b):
    va, vb = _numval(a), _numval(b)
    if va is not None and vb is not None:
        return fr_to_z3(va + vb)
    if va is not None and va == 0:
        return b
    if vb is not None and vb == 0:
        return a
    return a + b


def _sub_terms(a, b):
    va, vb = _numval(a), _numval(b)
    if va is not None and vb is not None:
        return fr_to_z3(va - vb)
    if vb is not None and vb == 0:
        return a
    return a - b


class _DivByConcreteZero(Exception):
    pass


class SymFloat:
    """z3 Real.  NOT a float subclass: leaks into C code are loud TypeErrors."""
    __array_ufunc__ = None
    __slots__ = ('t',)

    def __init__(self, t):
        self.t = t

    def __float__(self):
        raise TypeError('symbolic float leaked into C code (float())')

    def __bool__(self):
        return cur().branch(self.t != 0)          # float truthiness: non-zero

    def __index__(self):
        raise TypeError('symbolic float used as index')

    # -- arithmetic
    def _bin(self, o, f, name, refl=False):
        if isinstance(o, _np.ndarray):
            if o.ndim == 0:
                o = o[()]
            else:
                return _ew(lambda x: self._bin(x, f, name, refl), o)
        if isinstance(o, SymBool):
            return NotImplemented
        if _isnan(o):
            return float('nan')
        if _isinf(o):
            return self._inf_arith(o, name, refl)
        try:
            t = lift(o)
        except TypeError:
            return NotImplemented
        try:
            return SymFloat(f(t, self.t) if refl else f(self.t, t))
        except _DivByConcreteZero:
            # numpy semantics (values in containers are numpy scalars): x / 0.0 = +-inf or nan, no exception.
            # Recorded as a definedness violation of the path; the value follows IEEE by the sign of the numerator.
            cur().require_defined(z3.BoolVal(False), 'division: divisor != 0 (concrete zero divisor)')
            num = SymFloat(t) if refl else self
            if num > 0:
                return float('inf')
            if num < 0:
                return float('-inf')
            return float('nan')

    def _inf_arith(self, o, name, refl):
        # value (finite symbolic) op ±inf following IEEE
        pos = o > 0
        if name == 'add':
            return o
        if name == 'sub':
            return o if refl else -o
        if name == 'mul':
            if self > 0:
                return o
            if self < 0:
                return -o
            return float('nan')
        if name == 'div':
            if refl:      # inf / x
                if self > 0:
                    return o
                if self < 0:
                    return -o
                return o
            return SymFloat(z3.RealVal(0))   # x / inf = 0 (sign of zero ignored)
        raise NotImplementedError(name)

    def __add__(s, o): return s._bin(o, _add_terms, 'add')
    def __radd__(s, o): return s._bin(o, _add_terms, 'add', True)
    def __sub__(s, o): return s._bin(o, _sub_terms, 'sub')
    def __rsub__(s, o): return s._bin(o, _sub_terms, 'sub', True)
    def __mul__(s, o): return s._bin(o, _mul_terms, 'mul')
    def __rmul__(s, o): return s._bin(o, _mul_terms, 'mul', True)
    def __truediv__(s, o): return s._bin(o, _div_terms, 'div')
    def __rtruediv__(s, o): return s._bin(o, _div_terms, 'div', True)

    def __neg__(s):
        v = _numval(s.t)
        return SymFloat(fr_to_z3(-v) if v is not None else -s.t)

    def __mod__(s, m):
        """x % m for a concrete positive modulus: r = x - m*k, k integer, 0 <= r < m (Python float semantics)."""
        if not isinstance(m, (int, float, _np.integer, _np.floating)) or not m > 0:
            return NotImplemented
        ex = cur()
        k = ex.fresh('modk', 'int')
        r = ex.fresh('modr')
        mm = lift(m)
        ex.assume(z3.And(r == s.t - mm * z3.ToReal(k), r >= 0, r < mm))
        return SymFloat(r)

    def __pos__(s): return s
    def __abs__(s): return SymFloat(zabs(s.t))

    def __pow__(s, e):
        if isinstance(e, _np.ndarray):
            return _ew(lambda x: s.__pow__(x), e)
        if isinstance(e, (int, _np.integer)) or (isinstance(e, (float, _np.floating)) and float(e).is_integer() and abs(e) <= 8):
            e = int(e)
            if e == 0:
                return SymFloat(z3.RealVal(1))
            r = s
            for _ in range(abs(e) - 1):
                r = r * s
            return r if e > 0 else 1.0 / r
        from . import ufs
        if isinstance(e, (float, _np.floating)):
            if float(e) == 0.5:
                return ufs.sqrt(s)
            return ufs.powc(s, float(e))
        if isinstance(e, (SymFloat, SymInt)):
            return ufs.exp(e * ufs.log(s))
        return NotImplemented

    def __rpow__(s, b):
        from . import ufs
        if isinstance(b, _np.ndarray):
            return _ew(lambda x: s.__rpow__(x), b)
        if isinstance(b, (int, float, _np.integer, _np.floating)):
            if float(b) == 10.0:
                return ufs.exp10(s)
            if float(b) > 0:
                return ufs.exp(s * math.log(float(b)))
        return NotImplemented

    # numpy's object loops call these methods for unary ufuncs
    def sqrt(s):
        from . import ufs
        return ufs.sqrt(s)

    def exp(s):
        from . import ufs
        return ufs.exp(s)

    def log(s):
        from . import ufs
        return ufs.log(s)

    def log10(s):
        from . import ufs
        return ufs.log10(s)

    def sin(s):
        from . import ufs
        return ufs.sin(s)

    def cos(s):
        from . import ufs
        return ufs.cos(s)

    # -- comparisons (IEEE-aware for concrete nan/inf)
    def _cmp(self, o, op):
        if isinstance(o, _np.ndarray):
            if o.ndim == 0:
                o = o[()]
            else:
                return _ew(lambda x: self._cmp(x, op), o)
        if o is None or isinstance(o, (str, bytes)):
            return {'eq': False, 'ne': True}.get(op, NotImplemented)
        if _isnan(o):
            return op == 'ne'
        if _isinf(o):
            pos = o > 0
            return {'lt': pos, 'le': pos, 'gt': not pos, 'ge': not pos, 'eq': False, 'ne': True}[op]
        try:
            t = lift(o)
        except TypeError:
            return {'eq': False, 'ne': True}.get(op, NotImplemented)
        a = self.t
        return SymBool({'lt': a < t, 'le': a <= t, 'gt': a > t, 'ge': a >= t, 'eq': a == t, 'ne': a != t}[op])

    def __lt__(s, o): return s._cmp(o, 'lt')
    def __le__(s, o): return s._cmp(o, 'le')
    def __gt__(s, o): return s._cmp(o, 'gt')
    def __ge__(s, o): return s._cmp(o, 'ge')
    def __eq__(s, o): return s._cmp(o, 'eq')
    def __ne__(s, o): return s._cmp(o, 'ne')

    def __hash__(s):
        # all symbols collide: dict/set lookups then compare with ==, which forks on symbolic equality
        return 0xA51C

    def __repr__(s):
        return f'Sym({s.t})'

    def __format__(s, spec):
        return f'Sym({s.t})'

    def __copy__(s): return s
    def __deepcopy__(s, memo): return s
    def item(s): return s
    def copy(s): return s


# --------------------------------------------------------------------------
# SymInt (z3 Int).  Arithmetic stays symbolic; use as index / range concretises.


class SymInt:
    __array_ufunc__ = None
    __slots__ = ('t', 'lo', 'hi')

    def __init__(self, t, lo=None, hi=None):
        self.t, self.lo, self.hi = t, lo, hi

    def __bool__(self):
        return cur().branch(self.t != 0)

    def concretize(self):
        ex = cur()
        v = _numval(z3.simplify(self.t))
        if v is not None:
            return int(v)
        if self.lo is None or self.hi is None:
            # enumerate models
            while True:
                r, m = ex.check(z3.BoolVal(True), timeout_ms=5000, use_defs='never')
                if r != 'sat':
                    raise PathAbort()
                val = m.eval(self.t, model_completion=True).as_long()
                if ex.branch(self.t == val, concretising=True):
                    return val
        for val in range(self.lo, self.hi + 1):
            if ex.branch(self.t == val, concretising=True):
                return val
        raise PathAbort()

    def __index__(self): return self.concretize()
    def __int__(self): return self.concretize()

    def __float__(self):
        raise TypeError('symbolic int leaked into C code (float())')

    def _bin(self, o, f, refl=False):
        if isinstance(o, SymFloat):
            return NotImplemented
        if isinstance(o, SymInt):
            t = o.t
        elif isinstance(o, (int, _np.integer)) and not isinstance(o, (bool, _np.bool_)):
            t = z3.IntVal(int(o))
        elif isinstance(o, (float, _np.floating)):
            return SymFloat(lift(self))._bin(o, {'add': _add_terms, 'sub': _sub_terms, 'mul': _mul_terms}[f.__name__], f.__name__, refl)
        else:
            return NotImplemented
        return SymInt(z3.simplify(f(t, self.t) if refl else f(self.t, t)))

    def __add__(s, o): return s._bin(o, _iadd)
    def __radd__(s, o): return s._bin(o, _iadd, True)
    def __sub__(s, o): return s._bin(o, _isub)
    def __rsub__(s, o): return s._bin(o, _isub, True)
    def __mul__(s, o): return s._bin(o, _imul)
    def __rmul__(s, o): return s._bin(o, _imul, True)
    def __neg__(s): return SymInt(-s.t)

    def __floordiv__(s, o):
        if isinstance(o, (int, _np.integer)) and o > 0:
            return SymInt(s.t / z3.IntVal(int(o)))      # z3 int div = floor for positive divisor
        return NotImplemented

    def __mod__(s, o):
        if isinstance(o, (int, _np.integer)) and o > 0:
            return SymInt(s.t % z3.IntVal(int(o)))
        return NotImplemented

    def __truediv__(s, o): return SymFloat(lift(s)) / o
    def __rtruediv__(s, o): return o / SymFloat(lift(s))

    def _cmp(self, o, op):
        if isinstance(o, SymInt):
            t = o.t
        elif isinstance(o, (int, _np.integer)) and not isinstance(o, (bool, _np.bool_)):
            t = z3.IntVal(int(o))
        elif isinstance(o, (SymFloat, float, _np.floating)):
            return SymFloat(lift(self))._cmp(o, op)
        else:
            return {'eq': False, 'ne': True}.get(op, NotImplemented)
        a = self.t
        return SymBool({'lt': a < t, 'le': a <= t, 'gt': a > t, 'ge': a >= t, 'eq': a == t, 'ne': a != t}[op])

    def __lt__(s, o): return s._cmp(o, 'lt')
    def __le__(s, o): return s._cmp(o, 'le')
    def __gt__(s, o): return s._cmp(o, 'gt')
    def __ge__(s, o): return s._cmp(o, 'ge')
    def __eq__(s, o): return s._cmp(o, 'eq')
    def __ne__(s, o): return s._cmp(o, 'ne')
    def __hash__(s):
        # all symbols collide: dict/set lookups then compare with ==, which forks on symbolic equality
        return 0xA51C

    def __repr__(s):
        return f'SymInt({s.t})'


def _iadd(a, b): return a + b
def _isub(a, b): return a - b
def _imul(a, b): return a * b
_iadd.__name__, _isub.__name__, _imul.__name__ = 'add', 'sub', 'mul'


# --------------------------------------------------------------------------
# constructors


def sym(name, lo=None, hi=None, lo_strict=False, hi_strict=False) -> SymFloat:
    ex = cur()
    if ex.concrete:
        return ex.value(name, lo, hi, lo_strict, hi_strict)
    v = ex.input(name)
    if lo is not None:
        ex.assume(v > lift(lo) if lo_strict else v >= lift(lo))
    if hi is not None:
        ex.assume(v < lift(hi) if hi_strict else v <= lift(hi))
    return SymFloat(v)


def symint(name, lo=None, hi=None) -> SymInt:
    ex = cur()
    if ex.concrete:
        return int(ex.value(name, lo, hi))
    v = ex.input(name, 'int')
    if lo is not None:
        ex.assume(v >= lo)
    if hi is not None:
        ex.assume(v <= hi)
    return SymInt(v, lo, hi)


def symbool(name) -> SymBool:
    ex = cur()
    if ex.concrete:
        return bool(ex.value(name))
    return SymBool(ex.input(name, 'bool'))


def choose(name, options):
    """Concretising fork over a finite domain; returns one of `options`."""
    ex = cur()
    options = list(options)
    if ex.concrete:
        return options[int(ex.value(name, 0, len(options) - 1))]
    if len(options) == 1:
        ex.inputs.setdefault(name, z3.IntVal(0))
        return options[0]
    v = ex.input(name, 'int')
    ex.assume(z3.And(v >= 0, v < len(options)))
    for i in range(len(options) - 1):
        # v is a fresh variable: both sides are feasible by construction, no solver call needed
        if ex.branch(v == i, concretising=True, both_feasible=True):
            return options[i]
    ex.assume(v == len(options) - 1)
    return options[-1]


class ConcreteRun:
    """Stands in for an Explorer when a harness is re-executed on concrete values
    (replay of a counterexample, concolic validation): sym() returns floats."""
    concrete = True
    purify = False

    def __init__(self, values, strict=False):
        self.values = dict(values)
        self.notes = {}
        self.inputs = {}
        self.violated = []
        self.missing = []
        self.strict = strict

    def value(self, name, lo=None, hi=None, lo_strict=False, hi_strict=False):
        if name in self.values:
            v = self.values[name]
        else:
            self.missing.append(name)
            v = lo if lo is not None else (hi if hi is not None else 1.0)
            if lo is not None and lo_strict:
                v = lo + 1.0 if hi is None else (lo + hi) / 2
        self.inputs[name] = v
        return v

    def assume(self, cond):
        if not bool(cond):
            self.violated.append('assumption false on replay values')

    def require_defined(self, cond, what):
        pass

    def branch(self, cond, concretising=False):
        return bool(cond)

    def run(self, fn):
        global _CUR
        prev, _CUR = _CUR, self
        try:
            return fn(self), None
        except Exception as e:
            return None, e
        finally:
            _CUR = prev


# --------------------------------------------------------------------------
# model helpers


def mval(model, x, default=0.0):
    """float value of a symbolic (or concrete) quantity in a model."""
    if isinstance(x, (SymFloat, SymInt)):
        x = x.t
    if isinstance(x, SymBool):
        v = model.eval(x.t, model_completion=True)
        return z3.is_true(v)
    if not isinstance(x, z3.ExprRef):
        return x
    v = model.eval(x, model_completion=True)
    if z3.is_bool(v):
        return z3.is_true(v)
    if z3.is_int_value(v):
        return v.as_long()
    if z3.is_rational_value(v):
        return float(Fraction(v.numerator_as_long(), v.denominator_as_long()))
    if z3.is_algebraic_value(v):
        a = v.approx(30)
        return float(Fraction(a.numerator_as_long(), a.denominator_as_long()))
    return default


def mfrac(model, x):
    if isinstance(x, (SymFloat, SymInt)):
        x = x.t
    v = model.eval(x, model_completion=True)
    if z3.is_int_value(v):
        return Fraction(v.as_long())
    if z3.is_rational_value(v):
        return Fraction(v.numerator_as_long(), v.denominator_as_long())
    a = v.approx(30)
    return Fraction(a.numerator_as_long(), a.denominator_as_long())


def close(a, b, rel=1e-9, abs_=1e-12):
    """z3 Bool: |a-b| <= abs_ + rel*max(|a|,|b|) (exact arithmetic)."""
    a, b = lift(a), lift(b)
    d = zabs(a - b)
    return z3.Or(a == b, d <= lift(abs_) + lift(rel) * (zabs(a) + zabs(b)))


# --------------------------------------------------------------------------
# builtin shadows (installed per module by harnesses)


import builtins as _bi


class _FloatMeta(type):
    def __instancecheck__(cls, x):
        return _bi.isinstance(x, (_bi.float, SymFloat))

    def __call__(cls, x=0.0):
        if _bi.isinstance(x, SymFloat):
            return x
        if _bi.isinstance(x, SymInt):
            return SymFloat(lift(x))
        if _bi.isinstance(x, _np.ndarray) and x.dtype == object and x.ndim == 0:
            return cls(x[()])
        return _bi.float(x)


class float_shadow(float, metaclass=_FloatMeta):
    """Installed as `module.float`: float(x) keeps symbols, isinstance(x, float)
    accepts SymFloat, `float | np.floating` still works (it is a class)."""


class _IntMeta(type):
    def __instancecheck__(cls, x):
        return _bi.isinstance(x, (_bi.int, SymInt))

    def __call__(cls, x=0, *a):
        if _bi.isinstance(x, SymInt):
            return x
        if _bi.isinstance(x, SymFloat):
            raise Unmodelled('int() of a symbolic float')
        return _bi.int(x, *a)


class int_shadow(int, metaclass=_IntMeta):
    pass


def sym_isinstance(x, t):
    import types as _t
    if _bi.isinstance(x, SymFloat):
        ts = t.__args__ if _bi.isinstance(t, _t.UnionType) else (t if _bi.isinstance(t, tuple) else (t,))
        return any(c in (float, object, SymFloat, float_shadow) for c in ts)
    return _bi.isinstance(x, t)


def sym_abs(x):
    return abs(x)


def sym_max(*a, **k):
    if len(a) == 1:
        a = tuple(a[0])
    if any(isinstance(x, (SymFloat, SymInt)) for x in a):
        r = a[0]
        for x in a[1:]:
            r = ite(x > r, x, r)
        return r
    return _bi.max(*a, **k)


def sym_min(*a, **k):
    if len(a) == 1:
        a = tuple(a[0])
    if any(isinstance(x, (SymFloat, SymInt)) for x in a):
        r = a[0]
        for x in a[1:]:
            r = ite(x < r, x, r)
        return r
    return _bi.min(*a, **k)


class patched:
    """Context manager: temporarily set module/class attributes; restores on exit."""
    _MISSING = object()

    def __init__(self, *triples):
        self.triples = triples
        self.saved = []

    def __enter__(self):
        for obj, name, val in self.triples:
            self.saved.append((obj, name, obj.__dict__.get(name, self._MISSING) if hasattr(obj, '__dict__') else getattr(obj, name, self._MISSING)))
            setattr(obj, name, val)
        return self

    def __exit__(self, *a):
        for obj, name, old in reversed(self.saved):
            if old is self._MISSING:
                try:
                    delattr(obj, name)
                except AttributeError:
                    pass
            else:
                setattr(obj, name, old)
        return False
