"""numpy reach-through: object-dtype ndarray subclass `SymArr` + module shim `np`.

Arrays holding symbols are dtype=object arrays of SymArr.  Most numpy
functionality (slicing, broadcasting, fancy indexing, cumsum, stacking, + - * /)
comes from numpy itself calling the proxies' operators.  Functions without an
object loop or needing IEEE/NaN semantics are overridden in UFUNCS/HANDLERS.
Masks stay symbolic until they are consumed structurally (indexing/any/all).
"""
from __future__ import annotations

import builtins
import math

import numpy as _np
import z3

from . import ufs
from .core import (SymBool, SymFloat, SymInt, PathAbort, Unmodelled, cur, is_sym, ite, lift, liftb, sym_and, sym_not,
                   sym_or, zabs, _isinf, _isnan)


def _plain(x):
    return x.view(_np.ndarray) if isinstance(x, SymArr) else x


def wrap(res):
    if isinstance(res, _np.ndarray):
        if res.dtype == object and not isinstance(res, SymArr):
            return res.view(SymArr)
        return res
    if isinstance(res, tuple):
        return tuple(wrap(r) for r in res)
    if isinstance(res, list):
        return [wrap(r) for r in res]
    return res


def obj(a):
    """object SymArr from any array-like (symbols kept, floats kept as floats)."""
    if isinstance(a, _np.ndarray):
        r = a.astype(object) if a.dtype != object else a
        return r.view(SymArr)
    if isinstance(a, (list, tuple)):
        try:
            probe = _np.empty(len(a), dtype=object)
            nested = any(isinstance(x, (list, tuple, _np.ndarray)) for x in a)
        except TypeError:
            nested = False
        if nested:
            rows = [_plain(obj(x)) for x in a]
            return _np.array(rows, dtype=object).view(SymArr)
        for i, x in enumerate(a):
            probe[i] = x
        return probe.view(SymArr)
    r = _np.empty((), dtype=object)
    r[()] = a
    return r.view(SymArr)


def has_sym(a):
    if is_sym(a):
        return True
    if isinstance(a, _np.ndarray):
        if a.dtype != object:
            return False
        return builtins.any(is_sym(x) for x in a.ravel())
    if isinstance(a, (list, tuple)):
        return builtins.any(has_sym(x) for x in a)
    return False


def tobool(a):
    """concretise a mask (fork per symbolic element)."""
    if isinstance(a, SymBool):
        return bool(a)
    a = _np.asarray(_plain(a)) if not isinstance(a, _np.ndarray) else _plain(a)
    if a.dtype == object:
        out = _np.empty(a.shape, dtype=bool)
        for idx in _np.ndindex(a.shape):
            out[idx] = bool(a[idx])
        return out
    return a


def _key(k):
    if isinstance(k, SymInt):
        return k.concretize()
    if isinstance(k, SymBool):
        return bool(k)
    if isinstance(k, _np.ndarray) and k.dtype == object:
        flat = k.ravel()
        if flat.size and builtins.all(isinstance(x, (SymBool, bool, _np.bool_)) for x in flat):
            return tobool(k)
        if flat.size and builtins.all(isinstance(x, (SymInt, int, _np.integer)) for x in flat):
            return _np.array([int(x) for x in flat], dtype=_np.intp).reshape(k.shape)
        return _plain(k)
    if isinstance(k, tuple):
        return tuple(_key(x) for x in k)
    return k


def lt_total(a, b):
    """float sort order: NaN last (forks on symbolic comparisons)."""
    if _isnan(a):
        return False
    if _isnan(b):
        return True
    return bool(a < b)


class SymArr(_np.ndarray):
    def __array_finalize__(self, obj):
        pass

    def __getitem__(self, k):
        r = _np.ndarray.__getitem__(self, _key(k))
        return r

    def __setitem__(self, k, v):
        k = _key(k)
        if self.dtype != object and has_sym(v):
            raise Unmodelled('symbolic value stored into a non-object array')
        return _np.ndarray.__setitem__(self, k, _plain(v) if isinstance(v, SymArr) else v)

    def __bool__(self):
        if self.size != 1:
            raise ValueError('The truth value of an array with more than one element is ambiguous.')
        return bool(self.ravel()[0])

    def astype(self, dtype, *a, **k):
        if self.dtype == object and has_sym(self):
            if dtype in (float, _np.float64, object, 'float64', 'f8') or dtype is float:
                return self.copy()
            if dtype in (bool, _np.bool_):
                return tobool(self)
            flat = _plain(self).ravel()
            if dtype in (int, _np.int64, _np.intp) and builtins.all(isinstance(x, (SymBool, bool, _np.bool_)) for x in flat):
                return tobool(self).astype(dtype)
            if dtype in (int, _np.int64, _np.intp) and builtins.all(isinstance(x, (SymInt, int, _np.integer)) for x in flat):
                return _np.array([int(x) for x in flat], dtype=dtype).reshape(self.shape)
            raise Unmodelled(f'astype({dtype}) on symbolic array')
        if self.dtype == object and dtype in (float, _np.float64):
            return _plain(self).astype(float)
        return wrap(_np.ndarray.astype(_plain(self), dtype, *a, **k))

    def tolist(self):
        return _plain(self).tolist()

    def sort(self, axis=-1, **kw):
        if self.dtype != object:
            return _np.ndarray.sort(self, axis=axis, **kw)
        assert axis in (-1, self.ndim - 1) and self.ndim <= 2
        rows = [self] if self.ndim == 1 else [self[i] for i in range(self.shape[0])]
        for row in rows:
            out = []
            for v in list(_plain(row)):
                k = len(out)
                while k > 0 and lt_total(v, out[k - 1]):
                    k -= 1
                out.insert(k, v)
            for i, v in enumerate(out):
                _np.ndarray.__setitem__(row, i, v)

    def any(self, *a, **k):
        return _any(self, *a, **k)

    def all(self, *a, **k):
        return _all(self, *a, **k)

    def max(self, axis=None, **k):
        return _reduce_minmax(self, True, axis)

    def min(self, axis=None, **k):
        return _reduce_minmax(self, False, axis)

    def __array_function__(self, func, types, args, kwargs):
        h = HANDLERS.get(func)
        if h is not None:
            return wrap(h(*args, **kwargs))

        def strip(x):
            if isinstance(x, SymArr):
                return x.view(_np.ndarray)
            if isinstance(x, (list, tuple)):
                return type(x)(strip(y) for y in x)
            return x
        res = func(*strip(args), **{k: strip(v) for k, v in kwargs.items()})
        return wrap(res)

    def __array_ufunc__(self, ufunc, method, *inputs, **kwargs):
        ins = [_plain(x) for x in inputs]
        if 'out' in kwargs:
            kwargs['out'] = tuple(_plain(x) for x in kwargs['out'])
        symbolic = builtins.any((isinstance(x, _np.ndarray) and x.dtype == object) or is_sym(x) for x in ins)
        if symbolic and method == '__call__':
            h = UFUNCS.get(ufunc)
            if h is not None:
                return wrap(h(*ins, **kwargs))
            if ufunc in _COMPARE:
                kwargs.setdefault('dtype', object)
        if symbolic and method == 'reduce' and ufunc in (_np.maximum, _np.minimum):
            return _reduce_minmax(ins[0], ufunc is _np.maximum, kwargs.get('axis', 0))
        if symbolic and method == 'reduce' and ufunc in (_np.logical_or, _np.logical_and, _np.bitwise_or, _np.bitwise_and):
            f = _any if ufunc in (_np.logical_or, _np.bitwise_or) else _all
            return f(ins[0], axis=kwargs.get('axis', 0))
        return wrap(getattr(ufunc, method)(*ins, **kwargs))


_COMPARE = {_np.less, _np.less_equal, _np.greater, _np.greater_equal, _np.equal, _np.not_equal}


def elementwise(f, nin=1):
    def g(*xs, out=None, where=True, **kw):
        xs = [_plain(x) if isinstance(x, _np.ndarray) else x for x in xs[:nin]]
        arrs = [_np.asarray(x, dtype=object) if not isinstance(x, _np.ndarray) else x for x in xs]
        shape = _np.broadcast(*arrs).shape if len(arrs) > 1 else arrs[0].shape
        bs = [_np.broadcast_to(a, shape) for a in arrs]
        if isinstance(out, tuple):
            out = out[0]
        res = _plain(out) if out is not None else _np.empty(shape, dtype=object)
        w = where if isinstance(where, bool) else _np.broadcast_to(tobool(where), shape)
        for idx in _np.ndindex(shape):
            if w is True or (w is not False and w[idx]):
                res[idx] = f(*[b[idx] for b in bs])
        return res if res.shape else res[()]
    return g


def _sign1(v):
    if is_sym(v):
        return SymFloat(z3.If(v.t > 0, z3.RealVal(1), z3.If(v.t < 0, z3.RealVal(-1), z3.RealVal(0))))
    return float(_np.sign(v))


def _abs1(v):
    return abs(v) if not isinstance(v, SymFloat) else SymFloat(zabs(v.t))


def _max2(a, b):
    if _isnan(a) or _isnan(b):
        return float('nan')
    if is_sym(a) or is_sym(b):
        return ite(a >= b, a, b)
    return builtins.max(a, b)


def _min2(a, b):
    if _isnan(a) or _isnan(b):
        return float('nan')
    if is_sym(a) or is_sym(b):
        return ite(a <= b, a, b)
    return builtins.min(a, b)


def _reduce_minmax(a, is_max, axis=None):
    a = _plain(a) if isinstance(a, _np.ndarray) else _np.asarray(a, dtype=object)
    if a.dtype != object:
        return (a.max if is_max else a.min)(axis=axis)
    f = _max2 if is_max else _min2
    if axis is None or a.ndim == 1:
        flat = list(a.ravel())
        if not flat:
            raise ValueError('zero-size array to reduction operation which has no identity')
        r = flat[0]
        for x in flat[1:]:
            r = f(r, x)
        return r
    moved = _np.moveaxis(a, axis, 0)
    out = _np.empty(moved.shape[1:], dtype=object)
    for idx in _np.ndindex(out.shape):
        col = [moved[(i,) + idx] for i in range(moved.shape[0])]
        r = col[0]
        for x in col[1:]:
            r = f(r, x)
        out[idx] = r
    return wrap(out)


def _b_and(a, b): return sym_and(a, b) if (isinstance(a, SymBool) or isinstance(b, SymBool)) else (bool(a) and bool(b))
def _b_or(a, b): return sym_or(a, b) if (isinstance(a, SymBool) or isinstance(b, SymBool)) else (bool(a) or bool(b))
def _b_not(a): return sym_not(a) if isinstance(a, SymBool) else (not bool(a))


def _any(x, axis=None, **k):
    a = _plain(x) if isinstance(x, _np.ndarray) else _np.asarray(x, dtype=object)
    if a.dtype != object:
        return _np.any(a, axis=axis)
    if axis is None or a.ndim == 1:
        for v in a.ravel():       # short-circuit like Python any(): fork per symbolic element
            if bool(v):
                return True
        return False
    return _np.any(tobool(a), axis=axis)


def _all(x, axis=None, **k):
    a = _plain(x) if isinstance(x, _np.ndarray) else _np.asarray(x, dtype=object)
    if a.dtype != object:
        return _np.all(a, axis=axis)
    if axis is None or a.ndim == 1:
        for v in a.ravel():
            if not bool(v):
                return False
        return True
    return _np.all(tobool(a), axis=axis)


def _where(c, *a):
    if not a:
        return _np.where(tobool(c))
    x, y = a
    cp = _plain(c) if isinstance(c, _np.ndarray) else c
    if isinstance(cp, SymBool) or (isinstance(cp, _np.ndarray) and cp.dtype == object):
        return _native_if_structural(elementwise(lambda cc, xx, yy: ite(cc, xx, yy), 3)(cp, x, y))
    xs, ys = _plain(x) if isinstance(x, _np.ndarray) else x, _plain(y) if isinstance(y, _np.ndarray) else y
    if has_sym(xs) or has_sym(ys) or getattr(xs, 'dtype', None) == object or getattr(ys, 'dtype', None) == object:
        return elementwise(lambda cc, xx, yy: xx if cc else yy, 3)(cp, xs, ys)
    return _np.where(cp, xs, ys)


def _native_if_structural(r):
    """an object array holding only concrete non-numeric values (enum members, strings) becomes the native
    numpy array real numpy would have produced (e.g. '<U8'), so that ==, isin, fancy indexing behave as usual."""
    if isinstance(r, _np.ndarray) and r.dtype == object and r.size:
        flat = list(r.ravel())
        if builtins.all(isinstance(v, (str, bytes)) for v in flat):
            return _np.array([str.__str__(v) if isinstance(v, str) else v for v in flat]).reshape(r.shape)
    return r


def _select(condlist, choicelist, default=0):
    n = len(condlist)
    res = default
    for i in range(n - 1, -1, -1):
        res = _where(condlist[i], choicelist[i], res)
    return res


def _clip(a, a_min=None, a_max=None, out=None, **k):
    if a_min is None:
        a_min = k.get('min')
    if a_max is None:
        a_max = k.get('max')
    r = _plain(a) if isinstance(a, _np.ndarray) else a
    if a_min is not None:
        r = elementwise(_max2, 2)(r, a_min)
    if a_max is not None:
        r = elementwise(_min2, 2)(r, a_max)
    return r


def _searchsorted(a, v, side='left', sorter=None):
    a = _plain(_np.asarray(a)) if not isinstance(a, _np.ndarray) else _plain(a)
    vv = _np.asarray(v, dtype=object) if not isinstance(v, _np.ndarray) else _plain(v)
    if vv.dtype != object and a.dtype != object:
        return _np.searchsorted(a, vv, side=side)
    out = _np.empty(vv.shape, dtype=_np.intp)
    for idx in _np.ndindex(vv.shape):
        x = vv[idx]
        if _isnan(x):
            out[idx] = len(a)
            continue
        if not is_sym(x) and a.dtype != object:
            out[idx] = _np.searchsorted(a, x, side=side)
            continue
        k = 0
        while k < len(a) and (not _isnan(a[k])) and (bool(a[k] < x) if side == 'left' else bool(a[k] <= x)):
            k += 1
        out[idx] = k
    return out if out.shape else int(out[()])


def _interp1(x, xp, fp, left=None, right=None):
    """np.interp reference model for scalar x: xp non-decreasing; outside the range `left`/`right` (default: end values).
    At a duplicated abscissa numpy returns the value of the LAST duplicate (binary search for the largest j with
    xp[j] <= x)."""
    n = len(xp)
    if _isnan(x):
        return float('nan')
    if bool(x < xp[0]):
        return fp[0] if left is None else left
    if bool(x > xp[n - 1]):
        return fp[n - 1] if right is None else right
    if bool(x == xp[n - 1]):
        return fp[n - 1]
    # numpy: j = largest index with xp[j] <= x  (binary search), then slope on [j, j+1]
    j = 0
    while j + 1 < n and bool(xp[j + 1] <= x):
        j += 1
    if bool(xp[j] == x):
        return fp[j]
    slope = (fp[j + 1] - fp[j]) / (xp[j + 1] - xp[j])
    return slope * (x - xp[j]) + fp[j]


def _interp(x, xp, fp, left=None, right=None, period=None):
    assert period is None
    xp = list(_plain(_np.asarray(xp, dtype=object)))
    fp = list(_plain(_np.asarray(fp, dtype=object)))
    return elementwise(lambda e: _interp1(e, xp, fp, left, right))(x if isinstance(x, _np.ndarray) else _np.asarray(x, dtype=object))


def _isclose1(a, b, rtol=1e-05, atol=1e-08):
    if is_sym(a) or is_sym(b):
        return SymBool(zabs(lift(a) - lift(b)) <= lift(atol) + lift(rtol) * zabs(lift(b)))
    return bool(_np.isclose(a, b, rtol=rtol, atol=atol))


def _isclose(a, b, rtol=1e-05, atol=1e-08, equal_nan=False):
    return elementwise(lambda x, y: _isclose1(x, y, rtol, atol), 2)(a, b)


def _polyfit(x, y, deg, **kw):
    """closed-form least squares for deg == 1 (reference model of np.polyfit)."""
    assert deg == 1
    xs = list(_plain(_np.asarray(x, dtype=object)).ravel())
    ys = list(_plain(_np.asarray(y, dtype=object)).ravel())
    n = len(xs)
    sx = sum(xs[1:], xs[0])
    sy = sum(ys[1:], ys[0])
    sxx = sum((a * a for a in xs[1:]), xs[0] * xs[0])
    sxy = sum((a * b for a, b in zip(xs[1:], ys[1:])), xs[0] * ys[0])
    den = n * sxx - sx * sx
    slope = (n * sxy - sx * sy) / den
    icpt = (sy - slope * sx) / n
    return obj([slope, icpt])


def _isnan_arr(x):
    a = _np.asarray(_plain(x) if isinstance(x, _np.ndarray) else x, dtype=object)
    return _np.frompyfunc(lambda e: bool(_isnan(e)), 1, 1)(a).astype(bool) if a.shape else bool(_isnan(a[()]))


def _isinf_arr(x):
    a = _np.asarray(_plain(x) if isinstance(x, _np.ndarray) else x, dtype=object)
    return _np.frompyfunc(lambda e: bool(_isinf(e)), 1, 1)(a).astype(bool) if a.shape else bool(_isinf(a[()]))


def _isfinite_arr(x):
    a = _np.asarray(_plain(x) if isinstance(x, _np.ndarray) else x, dtype=object)
    r = _np.frompyfunc(lambda e: not (_isnan(e) or _isinf(e)), 1, 1)(a)
    return r.astype(bool) if a.shape else bool(r)


def _power(a, b, **k):
    return elementwise(lambda x, y: x ** y, 2)(a, b)


def _hypot1(a, b):
    return ufs.sqrt(a * a + b * b) if (is_sym(a) or is_sym(b)) else math.hypot(a, b)


def _u(f, conc):
    return elementwise(lambda v: f(v) if is_sym(v) else conc(v))


_DEG = math.pi / 180.0

UFUNCS = {
    _np.sign: elementwise(_sign1), _np.absolute: elementwise(_abs1), _np.fabs: elementwise(_abs1),
    _np.isnan: _isnan_arr, _np.isinf: _isinf_arr, _np.isfinite: _isfinite_arr,
    _np.maximum: elementwise(_max2, 2), _np.minimum: elementwise(_min2, 2),
    _np.fmax: elementwise(_max2, 2), _np.fmin: elementwise(_min2, 2),
    _np.logical_and: elementwise(_b_and, 2), _np.logical_or: elementwise(_b_or, 2), _np.logical_not: elementwise(_b_not),
    _np.bitwise_and: elementwise(_b_and, 2), _np.bitwise_or: elementwise(_b_or, 2), _np.invert: elementwise(_b_not),
    _np.sqrt: _u(ufs.sqrt, math.sqrt), _np.exp: _u(ufs.exp, math.exp), _np.log: _u(ufs.log, math.log),
    _np.log10: _u(ufs.log10, math.log10), _np.sin: _u(ufs.sin, math.sin), _np.cos: _u(ufs.cos, math.cos),
    _np.power: _power, _np.float_power: _power, _np.hypot: elementwise(_hypot1, 2),
    _np.deg2rad: elementwise(lambda v: v * _DEG), _np.radians: elementwise(lambda v: v * _DEG),
    _np.rad2deg: elementwise(lambda v: v / _DEG), _np.degrees: elementwise(lambda v: v / _DEG),
    _np.square: elementwise(lambda v: v * v),
}


def _divide(x1, x2, out=None, where=True, **kw):
    return elementwise(lambda a, b: a / b, 2)(x1, x2, out=out, where=where)


UFUNCS[_np.divide] = _divide
UFUNCS[_np.true_divide] = _divide


def _count_nonzero(x, axis=None, **k):
    return _np.count_nonzero(tobool(x), axis=axis)


def _unique(a, **k):
    a = _plain(_np.asarray(a))
    if a.dtype != object:
        return _np.unique(a, **k)
    assert not k
    tmp = a.ravel().copy().view(SymArr)
    tmp.sort()
    out = []
    for v in _plain(tmp):
        if not out or not bool(v == out[-1]):
            out.append(v)
    return obj(out)


def _sort(a, axis=-1, **k):
    r = _np.array(_plain(a), dtype=object, copy=True).view(SymArr) if _plain(_np.asarray(a)).dtype == object else None
    if r is None:
        return _np.sort(_plain(a), axis=axis, **k)
    r.sort(axis=axis)
    return r


def _amax(a, axis=None, **k): return _reduce_minmax(a, True, axis)
def _amin(a, axis=None, **k): return _reduce_minmax(a, False, axis)


def _nan_to_num(x, **k):
    raise Unmodelled('nan_to_num on symbolic array')


def _array_equal(a, b, **k):
    a, b = _plain(_np.asarray(a)), _plain(_np.asarray(b))
    if a.shape != b.shape:
        return False
    return _all(elementwise(lambda x, y: x == y, 2)(a, b))


def _allclose(a, b, rtol=1e-05, atol=1e-08, equal_nan=False):
    return _all(_isclose(a, b, rtol, atol))


def _digitize(x, bins, right=False):
    """reference model of np.digitize for monotonically increasing or decreasing bins"""
    b = list(_plain(_np.asarray(bins, dtype=object)).ravel())
    inc = True
    for i in range(len(b) - 1):
        if bool(b[i] > b[i + 1]):
            inc = False
            break
    if not inc:
        for i in range(len(b) - 1):
            if bool(b[i] < b[i + 1]):
                raise ValueError('bins must be monotonically increasing or decreasing')

    def one(v):
        if inc:
            k = 0
            while k < len(b) and (bool(b[k] < v) if right else bool(b[k] <= v)):
                k += 1
            return k
        k = 0
        while k < len(b) and (bool(b[k] >= v) if right else bool(b[k] > v)):
            k += 1
        return k
    xs = _plain(_np.asarray(x, dtype=object))
    out = _np.empty(xs.shape, dtype=_np.intp)
    for idx in _np.ndindex(xs.shape):
        out[idx] = one(xs[idx])
    return out if out.shape else int(out[()])


HANDLERS = {
    _np.searchsorted: _searchsorted, _np.where: _where, _np.select: _select, _np.clip: _clip, _np.interp: _interp,
    _np.isclose: _isclose, _np.allclose: _allclose, _np.polyfit: _polyfit, _np.any: _any, _np.all: _all,
    _np.count_nonzero: _count_nonzero, _np.unique: _unique, _np.sort: _sort, _np.max: _amax, _np.min: _amin,
    _np.amax: _amax, _np.amin: _amin, _np.array_equal: _array_equal, _np.nan_to_num: _nan_to_num, _np.digitize: _digitize,
}


def _floatlike(dtype):
    return dtype in (None, float, _np.float64, 'float64', 'f8', 'float', object, _np.floating) or dtype is float


class NpShim:
    """Installed as module-global `np` in modules under analysis.  Forwards to numpy;
    creation functions with a float dtype give object SymArr; functions that cannot
    dispatch (list/scalar arguments holding symbols) are routed to the handlers."""

    def __getattr__(self, k):
        v = getattr(_np, k)
        if v in HANDLERS:
            h = HANDLERS[v]
            return lambda *a, **kw: wrap(h(*a, **kw))
        if isinstance(v, _np.ufunc) and v in UFUNCS:
            return _UfuncShim(v)
        return v

    @staticmethod
    def _creation(fn, fill=None):
        def f(shape, *a, dtype=None, **k):
            if fn is _np.full and fill is None:
                val = a[0] if a else k.pop('fill_value')
                if _floatlike(dtype) and (has_sym(val) or dtype in (float, _np.float64) or (dtype is None and isinstance(val, float))):
                    r = _np.empty(shape, dtype=object)
                    r[...] = val
                    return r.view(SymArr)
                return _np.full(shape, val, dtype=dtype, **k)
            if dtype in (float, _np.float64) or dtype is None:
                r = _np.empty(shape, dtype=object)
                if fill is not None:
                    r[...] = fill
                return r.view(SymArr)
            return fn(shape, *a, dtype=dtype, **k)
        return f

    def array(self, x, dtype=None, copy=True, **k):
        if isinstance(x, SymArr) and x.dtype == object:
            if not _floatlike(dtype):
                if has_sym(x):
                    raise Unmodelled(f'np.array(symbolic, dtype={dtype})')
                return _np.array(_plain(x).tolist(), dtype=dtype)
            return x.copy() if copy else x
        if has_sym(x):
            if not _floatlike(dtype):
                raise Unmodelled(f'np.array(symbolic, dtype={dtype})')
            return obj(x)
        if isinstance(x, _np.ndarray) and x.dtype == object and _floatlike(dtype) and dtype is not None and dtype is not object:
            return obj(x)
        return _np.array(x, dtype=dtype, **k)

    def asarray(self, x, dtype=None, **k):
        if isinstance(x, SymArr) and (x.dtype != object or _floatlike(dtype)):
            return x
        return self.array(x, dtype=dtype, copy=False)

    def atleast_1d(self, x):
        if is_sym(x):
            return obj([x])
        if has_sym(x):
            r = obj(x)
            return r.reshape(1) if r.ndim == 0 else r
        return wrap(_np.atleast_1d(x))

    def isscalar(self, x):
        return True if is_sym(x) else _np.isscalar(x)

    def ndim(self, x):
        return 0 if is_sym(x) else _np.ndim(x)

    def shape(self, x):
        return () if is_sym(x) else _np.shape(x)

    def float64(self, x=0.0):
        return x if is_sym(x) else _np.float64(x)

    def abs(self, x):
        return abs(x) if is_sym(x) else wrap(_np.abs(x))

    def zeros_like(self, a, dtype=None, **k):
        if isinstance(a, _np.ndarray) and a.dtype == object and dtype is None:
            r = _np.empty(a.shape, dtype=object)
            r[...] = 0.0
            return r.view(SymArr)
        if is_sym(a):
            return 0.0
        return _np.zeros_like(a, dtype=dtype, **k)

    def ones_like(self, a, dtype=None, **k):
        if isinstance(a, _np.ndarray) and a.dtype == object and dtype is None:
            r = _np.empty(a.shape, dtype=object)
            r[...] = 1.0
            return r.view(SymArr)
        return _np.ones_like(a, dtype=dtype, **k)

    def full_like(self, a, fill_value, dtype=None, **k):
        if (isinstance(a, _np.ndarray) and a.dtype == object and dtype is None) or has_sym(fill_value):
            r = _np.empty(_np.shape(a), dtype=object)
            r[...] = fill_value
            return r.view(SymArr)
        return _np.full_like(a, fill_value, dtype=dtype, **k)

    def empty_like(self, a, dtype=None, **k):
        if isinstance(a, _np.ndarray) and a.dtype == object and dtype is None:
            return _np.empty(a.shape, dtype=object).view(SymArr)
        return _np.empty_like(a, dtype=dtype, **k)

    def concatenate(self, arrs, *a, **k):
        arrs = [obj(x) if (has_sym(x) and not isinstance(x, _np.ndarray)) else x for x in arrs]
        if builtins.any(isinstance(x, _np.ndarray) and x.dtype == object for x in arrs):
            arrs = [_plain(x).astype(object) if isinstance(x, _np.ndarray) else x for x in arrs]
        return wrap(_np.concatenate(arrs, *a, **k))

    def sum(self, x, *a, **k):
        if isinstance(x, (list, tuple)) and has_sym(x):
            x = obj(x)
        return wrap(_np.sum(x, *a, **k))

    def mean(self, x, *a, **k):
        if isinstance(x, (list, tuple)) and has_sym(x):
            x = obj(x)
        if isinstance(x, _np.ndarray) and x.dtype == object and not a and not k:
            return _np.sum(_plain(x)) / x.size
        return wrap(_np.mean(x, *a, **k))

    def diff(self, x, *a, **k):
        return wrap(_np.diff(x, *a, **k))


class _UfuncShim:
    """ufunc called through the shim: works for scalar symbols and lists as well."""

    def __init__(self, uf):
        self.uf = uf

    def __call__(self, *a, **k):
        ins = a[: self.uf.nin]
        if builtins.any(is_sym(x) or has_sym(x) or (isinstance(x, _np.ndarray) and x.dtype == object) for x in ins):
            scalar = builtins.all(not isinstance(x, (_np.ndarray, list, tuple)) for x in ins)
            r = UFUNCS[self.uf](*[(_plain(x) if isinstance(x, _np.ndarray) else x) for x in a], **k)
            if scalar and isinstance(r, _np.ndarray) and r.ndim == 0:
                r = r[()]
            return wrap(r)
        return self.uf(*a, **k)

    def __getattr__(self, k):
        return getattr(self.uf, k)


NpShim.zeros = staticmethod(NpShim._creation(_np.zeros, 0.0))
NpShim.ones = staticmethod(NpShim._creation(_np.ones, 1.0))
NpShim.empty = staticmethod(NpShim._creation(_np.empty))
NpShim.full = staticmethod(NpShim._creation(_np.full))

np = NpShim()


def symvec(name, n, lo=None, hi=None, **k):
    from .core import sym
    return obj([sym(f'{name}{i}', lo, hi, **k) for i in range(n)])
