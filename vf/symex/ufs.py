"""Transcendental functions as Ackermannised uninterpreted functions.

Each distinct application (after canonicalising the argument) is a fresh real;
congruence and sound axioms (sign, monotonicity, a few identities) are
instantiated on the applications that occur on the path -- never quantified.
Numeric values of libm functions are outside every claim made with these.
"""
from __future__ import annotations

import math
from fractions import Fraction

import numpy as _np
import z3

from .core import SymFloat, SymInt, cur, lift, _numval, fr_to_z3, _ew


def _round_fr(fr: Fraction, digits=12) -> Fraction:
    if fr == 0:
        return fr
    f = float(fr)
    if f == 0 or math.isinf(f):
        return fr
    e = math.floor(math.log10(abs(f)))
    scale = Fraction(10) ** (digits - 1 - e)
    return Fraction(round(fr * scale)) / scale


def canon(t):
    """sum-of-monomials normal form with numerals rounded to 12 significant digits."""
    t = z3.simplify(t, som=True, sort_sums=True, mul_to_power=False, arith_lhs=False)

    def rec(e):
        v = _numval(e)
        if v is not None:
            return fr_to_z3(_round_fr(v))
        if z3.is_app(e) and e.num_args() > 0:
            ch = [rec(c) for c in e.children()]
            return e.decl()(*ch)
        return e
    return z3.simplify(rec(t), som=True, sort_sums=True)


# axiom generators: called with the explorer, new (arg, val) and earlier apps of the same function
def _mono_inc(ex, arg, val, apps):
    for _, a2, v2 in apps:
        ex.assume(z3.And(z3.Implies(arg < a2, val < v2), z3.Implies(arg > a2, val > v2), z3.Implies(arg == a2, val == v2)))


def _mono_dec(ex, arg, val, apps):
    for _, a2, v2 in apps:
        ex.assume(z3.And(z3.Implies(arg < a2, val > v2), z3.Implies(arg > a2, val < v2), z3.Implies(arg == a2, val == v2)))


def _congr(ex, arg, val, apps):
    for _, a2, v2 in apps:
        ex.assume(z3.Implies(arg == a2, val == v2))


def apply(name, x, axioms=(), concrete=None):
    """value of UF `name` at x (SymFloat or number)."""
    if isinstance(x, _np.ndarray):
        return _ew(lambda e: apply(name, e, axioms, concrete), x)
    if not isinstance(x, (SymFloat, SymInt)):
        return concrete(x)
    t = lift(x)
    v = _numval(z3.simplify(t))
    ex = cur()
    if v is not None and concrete is not None:
        # numeral argument: concrete value, registered as an anchor so that the instantiated axioms (monotonicity,
        # congruence) relate symbolic applications to it
        cv = concrete(float(v))
        try:
            from fractions import Fraction as _F
            apps = ex.ufapps.setdefault(name, [])
            key = fr_to_z3(v).sexpr()
            if not any(k == key for k, _, _ in apps) and math.isfinite(cv):
                at, vt = fr_to_z3(v), fr_to_z3(_F(cv))
                for ax in axioms:
                    if ax in (_mono_inc, _mono_dec, _congr):
                        ax(ex, at, vt, apps)
                apps.append((key, at, vt))
        except Exception:
            pass
        return cv
    ct = canon(t)
    key = ct.sexpr()
    apps = ex.ufapps.setdefault(name, [])
    for k, a2, v2 in apps:
        if k == key:
            return SymFloat(v2)
    val = ex.fresh(name)
    for ax in axioms:
        ax(ex, ct, val, apps)
    apps.append((key, ct, val))
    return SymFloat(val)


def _find(name, key):
    for k, a2, v2 in cur().ufapps.get(name, []):
        if k == key:
            return a2, v2
    return None


def exp(x):
    def pos(ex, a, v, apps):
        ex.assume(v > 0)
        ex.assume(z3.Implies(a == 0, v == 1))
        ex.assume(z3.Implies(a > 0, v > 1))
        ex.assume(z3.Implies(a < 0, v < 1))
    return apply('exp', x, (pos, _mono_inc), math.exp)


def exp10(x):
    def pos(ex, a, v, apps):
        ex.assume(v > 0)
        ex.assume(z3.Implies(a == 0, v == 1))
        ex.assume(z3.Implies(a > 0, v > 1))
        ex.assume(z3.Implies(a < 0, v < 1))
        # 10**(log10 y) = y for every log10 application already on the path
        for _, a2, v2 in ex.ufapps.get('log10', []):
            ex.assume(z3.Implies(a == v2, v == a2))
    return apply('exp10', x, (pos, _mono_inc), lambda c: 10.0 ** c)


def _app_of_value(name_prefix, t):
    """if term t is (syntactically) the value variable of a recorded application, return (name, arg term)"""
    tid = z3.simplify(t).get_id()
    for nm, apps in cur().ufapps.items():
        if nm.startswith(name_prefix):
            for k, a2, v2 in apps:
                if v2.get_id() == tid:
                    return nm, a2
    return None


def _log_like(name, conc):
    def f(x):
        if isinstance(x, _np.ndarray):
            return _ew(f, x)
        if isinstance(x, SymFloat) and name == 'log':
            hit = _app_of_value('exp', canon(x.t)) if cur().ufapps.get('exp') else None
            if hit is not None and hit[0] == 'exp':
                return SymFloat(hit[1])          # log(exp(z)) = z
        if isinstance(x, (SymFloat, SymInt)):
            cur().require_defined(lift(x) > 0, f'{name}: argument > 0')

        def ax(ex, a, v, apps):
            ex.assume(z3.Implies(a == 1, v == 0))
            ex.assume(z3.Implies(a > 1, v > 0))
            ex.assume(z3.Implies(z3.And(a > 0, a < 1), v < 0))
        return apply(name, x, (ax, _mono_inc), conc)
    return f


log = _log_like('log', math.log)
log10 = _log_like('log10', math.log10)


def sqrt(x):
    """exact: y >= 0 and y*y == x (definedness: x >= 0)."""
    if isinstance(x, _np.ndarray):
        return _ew(sqrt, x)
    if not isinstance(x, (SymFloat, SymInt)):
        return math.sqrt(x)
    ex = cur()
    t = lift(x)
    v = _numval(z3.simplify(t))
    if v is not None:
        return math.sqrt(float(v))
    key = ('sqrt', t.get_id())
    if key not in ex.pur:
        y = ex.fresh('sqrt')
        ex.pur[key] = (y, t)
        ex.require_defined(t >= 0, 'sqrt: argument >= 0')
        ex.assume(y >= 0)
        ex.assume(y * y == t)
        for (k, other) in list(ex.pur.items()):
            if isinstance(k, tuple) and k[0] == 'sqrt' and k != key:
                y2, t2 = other
                ex.assume(z3.Implies(t < t2, y < y2))
                ex.assume(z3.Implies(t > t2, y > y2))
    return SymFloat(ex.pur[key][0])


def powc(x, c: float):
    """x ** c for a concrete non-integer exponent c (x > 0 required)."""
    if isinstance(x, _np.ndarray):
        return _ew(lambda e: powc(e, c), x)
    if not isinstance(x, (SymFloat, SymInt)):
        return float(x) ** c
    cur().require_defined(lift(x) > 0, f'pow(x,{c}): base > 0')
    cc = float(_round_fr(Fraction(c)))
    if isinstance(x, SymFloat) and any(n.startswith('pow[') for n in cur().ufapps):
        hit = _app_of_value('pow[', canon(x.t))
        if hit is not None:                      # pow(pow(y, a), b) = pow(y, a*b)   (y > 0)
            c1 = float(hit[0][4:-1])
            if abs(c1 * cc - 1.0) <= 1e-9:
                return SymFloat(hit[1])
            return powc(SymFloat(hit[1]), c1 * cc)

    def ax(ex, a, v, apps):
        ex.assume(z3.Implies(a > 0, v > 0))
        ex.assume(z3.Implies(a == 1, v == 1))
        if cc > 0:
            ex.assume(z3.Implies(a > 1, v > 1))
            ex.assume(z3.Implies(z3.And(a > 0, a < 1), v < 1))
        else:
            ex.assume(z3.Implies(a > 1, v < 1))
            ex.assume(z3.Implies(z3.And(a > 0, a < 1), v > 1))
    return apply(f'pow[{cc!r}]', x, (ax, _mono_inc if cc > 0 else _mono_dec), lambda b: b ** c)


def _trig(name, conc, other):
    def f(x):
        def ax(ex, a, v, apps):
            ex.assume(z3.And(v >= -1, v <= 1))
            key = a.sexpr()
            for k, a2, v2 in ex.ufapps.get(other, []):
                if k == key:
                    ex.assume(v * v + v2 * v2 == 1)
        return apply(name, x, (ax, _congr), conc)
    return f


sin = _trig('sin', math.sin, 'cos')
cos = _trig('cos', math.cos, 'sin')


def generic(name, x, *axioms, concrete=None):
    return apply(name, x, tuple(axioms) + (_congr,), concrete)
